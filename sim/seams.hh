// Seams the simulator owns: allocator, step clock, writer-buffer knob.
#pragma once
#include <cstddef>
#include <cstdint>

namespace sim {

struct AllocSeam {
    size_t per_request_cap = (size_t)256 << 20;  // a declared size beyond this gets std::bad_alloc, not an OOM kill
    size_t live_cap = (size_t)1 << 31;
    long fail_at = -1;          // fail the k-th allocation counted from arm() (-1: never)
    long count = 0;             // allocations since arm()
    size_t live = 0, high_water = 0;
    long refused = 0;           // how often a fault actually fired
    bool active = false;
};
extern AllocSeam g_alloc;
void alloc_arm(long fail_at, size_t per_request_cap);
void alloc_disarm();

struct StepClock {
    uint64_t steps = 0;         // simulated time: instrumented control-flow edges executed in IO/ and FileManager/
    uint64_t budget = 0;        // 0 = unlimited
    uint64_t last_progress_step = 0;
    uint64_t progress_token = 0;  // bumped by the stream seam whenever bytes are consumed / produced
    uint64_t seen_token = 0;
    bool expired = false;
    unsigned nguards = 0;
};
extern StepClock g_clock;
void clock_arm(uint64_t budget);
void clock_disarm();
extern void (*g_on_nontermination)();  // called when the budget is exhausted without progress (never returns)

// syscall seam for the *path* overloads (libstdc++ filebuf -> write/writev/read/close): the executable defines these
// symbols itself; real work goes through syscall(2). Faults apply only to the file whose path is armed.
struct SysSeam {
    bool active = false;
    char path[256] = {0};
    long enospc_after = -1;     // bytes accepted before write()/writev() start failing with ENOSPC (-1: never)
    long read_eio_after = -1;   // bytes delivered before read() starts failing with EIO
    bool close_fails = false;
    long written = 0, delivered = 0;
    long fired_enospc = 0, fired_eio = 0, fired_close = 0, short_writes = 0;
    int fd_cache = -1;
};
extern SysSeam g_sys;
void sys_arm(const char *path, long enospc_after, long read_eio_after, bool close_fails);
void sys_disarm();

extern size_t g_writebuf_knob;  // replaces the writer's 100 MiB preallocation (0 = keep the real value)

}  // namespace sim
