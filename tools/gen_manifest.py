#!/usr/bin/env python3
"""Regenerates /verif/MANIFEST.json from the table below (one place to edit)."""
import json, os, subprocess

VERIF = os.path.dirname(os.path.dirname(os.path.abspath(__file__)))

TECH = "deterministic simulation with fault injection: seeded cooperating-client histories on real meshes vs. reference model"
CHECKS = {
    "C01": ("exploration", "2 3.C01",
            "Seeded histories of cooperating clients (builder, mutator, deleter, swapper, collector, toggler, clearer, property clients) on poly/tet/hex meshes (tets, hexes on a lattice, prisms, pyramids, two-sided pillow cells, fans of 3..40 tets around one edge, loops, 2-gons, duplicate edges) in all four deletion modes; after every op a brute-force inverse of the mesh's own edge/face/cell arrays is compared with outgoing/incoming halfedges, halfedge_halffaces, incident_cell and every derived query (v->v/e/f/hf/c, he->f/c, e->hf/f/c, c->c, valences, is_boundary x6, boundary iterators). Sampling, not proof.",
            "Trusts the harness's valid-argument generators as the precondition space; meshes <= ~40 vertices, plans <= ~120 ops; order of answers is compared only as multisets (C09 judges order)."),
    "C02": ("exploration", "3.C02",
            "Every deletion (any entity kind, any mode, any bottom-up subset, interleaved with additions, clear, mode switches) is compared with the reference model's upward closure: survivors slot for slot (predicted renumbering, falling back to uid-tag isomorphism), counters, logical counters, deleted flags, needs_garbage_collection, genus.",
            "Model predicts the documented renumbering; a different legal renumbering is accepted through uid tags and counted in evidence (renumbering_differs)."),
    "C03": ("exploration", "3.C03",
            "Properties of int/bool/double/string/Vec3d on all seven entity kinds, created before and during histories, written with unique values; after every op size()==slots and every live slot holds the model value of its entity uid (half-entities: of (uid, side)); new slots hold the default; positions likewise; uid tags on all six kinds cross-check every renumbering path.",
            "Values of tombstone slots are unspecified and not compared; after tet edge collapse only untouched entities are compared."),
    "C04": ("exploration", "3.C04",
            "The collector client fires collect_garbage(), enable_deferred_deletion(false) and StatusAttrib::garbage_collection (marks, manifoldness flag, tracked handle subsets incl. handles of removed entities and invalid handles) at scheduler-chosen instants; afterwards the mesh must equal the model's logical mesh (which is mode independent, i.e. the immediate-deletion twin), no pending deletions, tracked handles designate the same uid or are invalid.",
            "As C02 for renumbering; marks are drawn with p=0.12 per live entity."),
    "C05": ("exploration", "3.C05",
            "In every state reached by the histories (deleted prefixes/middles/suffixes, empty meshes): the six entity iterators via begin/end, iter()+valid(), range-for and backward stepping yield the live handles ascending / descending; all 26 circulators plus boundary_halfface_halffaces: forward sequence equals the expected incident list (brute force for bottom-up ones, stored definition order for top-down ones) repeated max_laps (1..3) times, no duplicates where the relation is a set, begin/end loop agrees, end == begin advanced past the last lap, --(++it) == it at every position incl. lap boundaries, empty centre => invalid circulator and empty range.",
            "Each centre is checked for one lap count (rotating 1,2,3) and every fifth centre for all three; behaviour of -- from begin and of ++/-- on an invalid iterator is not demanded; tet/hex circulators are covered by C15/C16."),
    "C06": ("exploration", "3.C06",
            "Checkpointer client inside the histories (poly/tet/hex meshes after deletions+collection, swaps, open cells, duplicate edges, special positions incl. NaN/-0/denormals, width-boundary meshes 255/256/257 and in thorough 65535/65536/65537): persistent properties of all 30 OVMB codec types (and the ASCII typeName list; strings with arbitrary bytes incl. NUL and line breaks in both formats) on all 7 entity kinds with non-trivial defaults plus the tracked int/bool/double/string/Vec3d properties. (1) write->read (stream overloads, and through real files with ovmb_write(path) / FileManager::writeFile + IO::read_file) into same kernel, polyhedral and (when the content allows) tet/hex meshes with topology check on/off and bottom-up on/off: counts, definitions handle for handle, positions bit-exact, property set, values, defaults; ASCII: second round trip is a fixed point; (2) independent decoder written from the kaitai description decodes the writer's bytes to the model; (3) three seeded legal re-encodings per image (chunks split into spans, wider handle/valence encodings, variable valence, non-zero handle offsets, float vertices when exact, DIRP after topology, optional unknown chunks) read to the same mesh; (4) topo_type()/vertex_dim()/isHexahedralMesh/isTetrahedralMesh agree with the model; (5) pending deletions: refused or logical content; restart-through-file adds loaded meshes to the population. Only benign transfer behaviour (chunked reads, writer buffer knob).",
            "ASCII values are restricted to what the text format denotes with 6 significant digits; tet/hex files are assumed to require fixed valences (the reader's documented rule); user-registered codecs and files > ~2 MiB are out of reach."),
    "C07": ("exploration", "3.C07",
            "Fault-injecting checkpointer: images written from history meshes, then 1-3 seeded faults per load: bit flips, byte replacement, insertion, deletion, block duplication, truncation, splices, arbitrary bytes, located header/sub-header fields set to boundary values (field locations from the independent decoder), chunks dropped/duplicated/swapped, payloads shortened with consistent framing (reaches the codecs behind the framing checks), DIRP defaults shortened, TOPO handle bytes permuted, spans grown together with their payload, handle encoding None, faults applied to seeded legal re-encodings of the image as well as to the writer's bytes; ASCII: lines/tokens dropped, repeated, replaced by non-numeric / huge / negative text; allocator faults (per-request cap 48 MiB, fail the k-th allocation). Loaded into poly/tet/hex meshes with both topology_check settings. Oracles: ASan+UBSan with container annotations, step-clock liveness (budget 250M + 6000 instrumented edges per image byte; an overrun only counts without consumed bytes or allocations in the trailing quarter), outcome in {error, false, bad_alloc/length_error/std exception}, and on success: every stored handle in range, every property sized to its entity count, the incidence battery runs on the result.",
            "A clean batch is evidence over the sampled fault space only; faults needing more than three coordinated field edits are out of reach."),
    "C18": ("fault_enumeration", "3.C18",
            "Per-image sweeps over OVMB images written from history meshes: every truncation length (as short image and as 'size reported, EOF early'), every located header / chunk-header / sub-header field x ~20 boundary values, every chunk dropped / duplicated / swapped with its successor, input stream failing from every byte position (plus seek failure), output stream failing from every byte position. Thorough: complete per image (stride 1); quick: strided (about 48 positions per image plus all chunk boundaries). Oracle three-valued through the independent decoder: INVALID-for-a-listed-reason (prefix, magic, header version, reserved/padding bytes, chunk length, span continuity and range, encoding enums vs. valence mode, handle range, EOF chunk missing/duplicated/not last, second DIRP, declared counts not delivered) => result must not be Ok; VALID => Ok with the decoder's mesh (only demanded with topology_check off); UNDECIDED (file_version, flags, compression, unknown chunk types, payload bytes) => safety only. Stream failures on either side must never yield Ok.",
            "Path overloads (ovmb_write(path), ovmb_read(path)) run behind the syscall seam (ENOSPC after p bytes, read(2) EIO after p bytes); the first and last padding byte of every chunk are swept too. Complete only per image; seeded exploration over images."),
    "C08": ("exploration", "3.C08",
            "On every live edge and face of every reached state: opposite halfedge swaps endpoints, halfface(opposite) is the reversed list of opposite halfedges, opposite twice is the identity, all handle conversions (static and member) are mutually inverse on the handles of the state, on boundary indices and on 16 random indices < 2^30 per state; every face is a closed loop; vertex/halfedge/edge circulators of the two sides enumerate the same cycle in opposite directions; next/prev_halfedge_in_halfface are inverse steps.",
            "The clause 'for every index in [0,2^30) exhaustively' is enumeration of a pure function and is outside this technique: only sampled indices are checked."),
    "C09": ("exploration", "3.C09",
            "In histories without set_face/set_cell, after every op an independent recogniser classifies each edge from the top-down arrays; for single-fan edges (closed ring or one open chain) both halfedges' halfface lists must be in rotational order (successor = opposite of the in-cell neighbour, boundary only last) and mirror each other; adjacent_halfface_in_cell on every closed cell equals the brute-force partner, accepts either orientation when unambiguous, and is an involution. What varies is the order in which cells are attached/removed around an edge, toggles, swaps and collections; cells containing both halffaces of a face (pillows) and fans of up to 40 cells are generated.",
            "Edges the recogniser cannot classify (faces containing the edge twice, cells with !=2 halffaces at the edge, disconnected fans) are skipped and counted, never failed."),
    "C10": ("exploration", "3.C10",
            "In reached states with all incidences on: find_halfedge on all ordered vertex pairs (sampled beyond 150), find_halfface / find_halfface_extensive / find_halfface_in_cell / find_halfedge_in_cell on tuples taken from faces (rotated, reversed, one vertex replaced, reordered beyond the third, shortened) and random tuples, find_halfface(halfedge pair), get_halfface_vertices x3, is_incident, n_vertices_in_cell; oracle = brute-force search over live definitions: sound (returned entity is live and really matches) and complete (invalid only if nothing qualifies).",
            "Where duplicate edges/faces or faces with repeated vertices make several answers qualify or the documented 'first three checked' shortcut ambiguous, the case is skipped."),
    "C11": ("exploration", "3.C11",
            "Builder issues valid and invalid argument lists (open/reversed/repeated halfedges, missing/doubled/flipped halffaces, both orientations, wrong valence for tet/hex, one face replaced by a flap that shares one edge, arbitrary lists of free halffaces of the mesh as it is, the empty list) with topology check on all three kernels, with and without vertex incidences and in deferred states with deleted edges between the vertices; oracle = acceptance predicate of the statement, exact definition of the appended entity, full snapshot equality after a rejected call, add_edge dedup returns a live joining edge.",
            "Empty lists, same-size duplicated lists and all-sides-flipped cells are generated; hex checked add_cell may store a permuted valid list reordered (C16 judges the order)."),
    "C12": ("exploration", "3.C12",
            "Toggler client disables/re-enables any subset of vertex/edge/face incidences anywhere in histories with deletions in all modes, swaps and collections; every state is compared with the reference model (which has no caches, i.e. is the always-enabled twin), ASan with container annotations watches the cleared cache vectors, and after re-enabling the C01 brute-force battery must hold.",
            "Queries are only issued for enabled kinds; order of re-computed incidences is compared as multisets."),
    "C13": ("exploration", "3.C13",
            "Forker client copy-constructs, assigns (also from a freshly built property-less mesh and through the other kernels), self-assigns and destroys replicas (<=3) at arbitrary instants; the new replica must equal the model clone (entities, definitions, positions, deletion state, modes, incidence flags, persistent properties by value, non-persistent absent), and after every later op on one replica every other replica's structure, property values and registry are re-verified unchanged; handles held into an assigned-to mesh stay usable (ASan), sized, not findable.",
            "Cross-kernel copies (tet/hex kernel -> polyhedral kernel and the kernels' own copy/assign) are covered; copying into a more specific kernel is not offered by the API."),
    "C14": ("exploration", "3.C14",
            "Registry histories over 5 value types x 7 entity kinds x a pool of 4 colliding names with 8 client handle slots: request/create_shared/create_persistent/create_private/get/exists/set_shared/set_persistent/set_name, handle copy/move/drop, clear_props, clear, mesh copy/assign/destroy; oracle = registry state-machine model (lookup results, same-storage identity, exceptions and nothing-changed, n_props/n_persistent_props, persistent=>shared=>named-unique), ASan for every destruction order, detached handles keep size and values.",
            "create_shared/persistent with the empty name are generated (must throw and change nothing); at most 8 client handle slots and 4 names per run."),
    "C15": ("exploration", "3.C15",
            "Tet-kernel histories (add via halffaces and via the kernel's vertex entry points, glue along faces/edges/vertices, rejected adds, deletions in all modes, swaps, collections, edge collapses): shape invariants (3 edges per face, 4 faces / 4 distinct vertices per cell); for every cell x halfface x halfedge: get_cell_vertices (4 forms), halfface_opposite_vertex / vertex_opposite_halfface inverse, tv_iter incl. circulator protocol; TetTopology for all 12 (halfface, start vertex) choices x 2 constructors plus the (cell, vertex) and (cell) constructors, triangle_topology for all 24 halfface labels through the run-time and the compile-time overload: four distinct vertices, 12 labelled halfedges join their labelled vertices, 20 labelled inner/outer halffaces have the labelled vertex cycle and belong to the cell (outer: opposite), get_label inverts the accessors, TriangleTopology agrees. collapse_edge on halfedges that satisfy the link condition (computed on the model's simplicial closure): resulting oriented cell set == model (cells without both a and b, a->b), returned handle designates b (uid tag), in all four deletion modes.",
            "Collapse candidates exclude meshes with duplicate edges/faces; after a collapse the model is re-synchronised from the mesh (entity-level renumbering of a collapse is not specified), property values are compared again from then on."),
    "C16": ("exploration", "3.C16",
            "Hex-kernel histories: hexes on a 3x3x3 integer lattice (blocks of arbitrary shape with shared faces, interior edges, sheets) and free-standing/glued hexes, built through halfface lists (canonical, and permuted with topology check) and through the kernel's 8-vertex entry point; deletions/GC/swaps included. Oracle from the class documentation: 4 edges per face, 6 faces / 8 distinct vertices per cell, halffaces 2k/2k+1 vertex-disjoint, walking the first halfface meets 2,4,3,5 cyclically, orientation / opposite_halfface_handle_in_cell / x,y,z accessors / get_oriented_halfface agree with the list, orthogonal_orientation == cross product of signed axes, hex_vertices first four / last four / 0-4,1-7,2-6,3-5 edge pattern, csc_iter == neighbours across the four orthogonal halffaces, hfshf_iter and adjacent_halfface_on_sheet == matching halffaces of those neighbours, circulator protocol for hv/csc.",
            "Irregular neighbourhoods where 'the matching halfface' is not unique are skipped and counted (c16_irregular_sheet_skipped)."),
    "C17": ("exploration", "3.C17",
            "Swapper client swaps any two slots of each kind (same, adjacent, sharing a super-entity, deferred-deleted, first/last) under every incidence subset; the model transposes two slots and the SUT must equal it exactly (no renumbering fallback): definitions, flags, every property incl. side-by-side half-entity values; swap twice == identity is implied by the model and checked op by op.",
            "Incidence caches are checked by C01's battery in the C01/C12 checks, not here."),
    "C20": ("exploration", "2.9 3.C20",
            "Frozen world: a seeded history builds a poly/tet/hex mesh (with deferred-deleted entities, client properties, fans of up to 40 cells around an edge; in 45% of the runs a seeded subset of incidence kinds is switched off and on again right before freezing, as file readers and StatusAttrib collection do) inside a private arena; then the arena and the executable's writable image (.data/.bss, full RELRO) are mprotect-ed read-only while 2..16 logical readers run programs of const queries (6 entity iterators, 26 circulators, boundary iterators, lookups, valence/boundary queries, definitions, positions, geometry, property reads through existing handles, tet/hex queries) decomposed into micro-steps; a seeded scheduler picks which reader performs its next micro-step, so many half-advanced iterators of different readers are alive at once. Oracle (a): any write to frozen memory during a const call traps (SIGSEGV) and is reported with the query in progress - a statement about every schedule, since a data race needs a write; C++11 guarded static initialisation is exempt, and memory allocated inside such an initialiser is taken from the arena and frozen afterwards. Oracle (b): each reader's observation log under the interleaving equals its log when run alone.",
            "Plain (non-sanitizer) build, one process per run. A const function publishing freshly allocated heap memory only through foreign DSOs' data would escape (a) and be seen by (b) only at micro-step granularity. No real threads: TSan would see nothing under a serialising scheduler."),
}
NOT_YET = {
}
NA = {"C19": "pure functions of numeric input (vector algebra, geometric formulas): no state, schedule, clock, I/O fault or interleaving exists for a simulator to control; input generation under another name would not be this technique"}


def main():
    hooks = subprocess.run(["git", "-C", "/repo", "log", "--format=%h %s"], stdout=subprocess.PIPE, text=True).stdout.splitlines()
    m = {
        "version": 1,
        "setup_cmd": "python3 tools/build.py all && ./check selftest 20",
        "hooks": {
            "guard": "OVM_VERIF",
            "enable": "none needed: all seams are link-time or stream/allocator level (custom streambuf, operator new, -Wl,--wrap of WriteBuffer::need, trace-pc-guard step clock); -DOVM_VERIF is passed but no guarded code exists in /repo",
            "baseline_off_cmd": "tools/baseline_off.sh",
            "source_commits": [],
            "add_only": True,
        },
        "engines": [{"name": "ovmsim", "path": "sim/", "kind_free_text": "deterministic simulation with fault injection (seeded client scheduler, reference model, simulated storage/allocator/step clock, gated replay, shrinking)",
                     "serves_properties": sorted(CHECKS)}],
        "checks": [],
        "not_applicable": [],
        "notes": "Genuine defects found by the checks and repaired in /repo as 'fix:' commits are listed in known_findings.txt (fixed: lines) and kept as regression plans under replays/regress/.",
    }
    for pid in sorted(CHECKS):
        level, ref, text, note = CHECKS[pid]
        m["checks"].append({
            "property_id": pid,
            "quick_cmd": "./check %s --tier quick" % pid,
            "thorough_cmd": "./check %s --tier thorough" % pid,
            "evidence_file": "evidence/%s.json" % pid,
            "replay_cmd_template": "./check %s --replay {path}" % pid,
            "engine": "ovmsim",
            "level_claimed": {"category": level, "text": text, "design_ref": "DESIGN.md section " + ref},
            "level_note": note,
            "technique": TECH if pid not in TECHS else TECHS[pid],
        })
    for pid in sorted(NOT_YET):
        if pid not in CHECKS:
            m["not_applicable"].append({"property_id": pid, "reason": NOT_YET[pid]})
    for pid in sorted(NA):
        m["not_applicable"].append({"property_id": pid, "reason": NA[pid]})
    json.dump(m, open(os.path.join(VERIF, "MANIFEST.json"), "w"), indent=1)
    print("MANIFEST.json:", len(m["checks"]), "checks,", len(m["not_applicable"]), "not applicable")


TECHS = {"C20": "deterministic simulation: seeded micro-step interleaving of reader tasks over a write-protected (mprotect) mesh arena and program image", "C18": "deterministic simulation with fault injection: per-image fault enumeration (truncation, field boundary values, chunk reorder, stream failure at every position) classified by an independent decoder", "C07": "deterministic simulation with fault injection: seeded stored-byte, token and allocator faults into the readers under sanitizers and a step clock", "C06": "deterministic simulation: checkpoint/restart client over simulated storage with an independent codec as oracle and re-encoder"}
if __name__ == "__main__":
    main()
