#!/usr/bin/env python3
"""Apply every stored seeded change to /repo in turn, run the check of the property it breaks (quick tier, short budget)
and report CAUGHT / MISSED / NOAPPLY. Always reverts /repo. Never run concurrently with another check.
usage: seeded_all.py [budget_seconds] [id-prefix...]"""
import json, os, subprocess, sys, glob
V = os.path.dirname(os.path.dirname(os.path.abspath(__file__)))
budget = sys.argv[1] if len(sys.argv) > 1 else "30"
only = sys.argv[2:]
env = dict(os.environ, VERIF_EVIDENCE_DIR="/tmp/mut_ev", VERIF_REPLAY_DIR="/tmp/mut_rp")
res = []
for d in sorted(glob.glob(V + "/seeded/*/")):
    mid = os.path.basename(d.rstrip("/"))
    if only and not any(mid.startswith(o) for o in only): continue
    meta = json.load(open(d + "meta.json"))
    prop = meta["breaks_property"]
    if subprocess.run(["git", "-C", "/repo", "apply", "--check", d + "patch.diff"], capture_output=True).returncode != 0:
        r3 = subprocess.run(["git", "-C", "/repo", "apply", "-3", d + "patch.diff"], capture_output=True)
        if r3.returncode != 0:
            print(mid, "NOAPPLY", flush=True); res.append((mid, "NOAPPLY")); subprocess.run(["git", "-C", "/repo", "checkout", "--", "."]); subprocess.run(["git","-C","/repo","reset","-q"]); continue
        subprocess.run(["git","-C","/repo","reset","-q"])
    else:
        subprocess.run(["git", "-C", "/repo", "apply", d + "patch.diff"])
    try:
        r = subprocess.run([V + "/check", prop, "--budget", budget], cwd=V, env=env, stdout=subprocess.PIPE, stderr=subprocess.STDOUT, text=True)
        v = [l for l in r.stdout.splitlines() if l.startswith("VIOLATION")]
        st = "CAUGHT" if (r.returncode == 1 and v) else "MISSED rc=%d" % r.returncode
        print(mid, prop, st, (v[0].split("class=")[1][:90] if v and "class=" in v[0] else ""), flush=True)
        res.append((mid, st))
    finally:
        subprocess.run(["git", "-C", "/repo", "checkout", "--", "."])
bad = [m for m, s in res if s != "CAUGHT"]
print("SEEDED total=%d caught=%d not_caught=%s" % (len(res), len(res) - len(bad), bad))
sys.exit(1 if bad else 0)
