// Independent OVMB codec, written from extra/ovmb-kaitai/ovmb.ksy and documentation/subpages/binary_file_format.docu.
// Shares no code with src/OpenVolumeMesh/IO. It is (a) the oracle for "the bytes the writer produces decode under the
// published description to that same mesh", (b) the generator of other legal encodings, (c) the field locator that lets
// the fault planner aim, (d) the three-valued classifier (VALID / INVALID-for-a-listed-reason / UNDECIDED) of C18.
#pragma once
#include <array>
#include <cstdint>
#include <cstring>
#include <map>
#include <string>
#include <vector>
#include "kit.hh"

namespace sim {

struct IField { size_t off; int size; std::string name; };
struct IChunk { size_t off = 0; std::string type; uint8_t version = 0, padding = 0, compression = 0, flags = 0; uint64_t file_length = 0; size_t payload_off = 0, payload_len = 0; };
struct IProp {
    uint8_t entity = 0;
    std::string name, type, def;
    std::vector<std::string> elems;   // canonical bytes per element (bool: one byte 0/1)
    std::vector<char> have;
    bool known_type = true;
};
struct IFile {
    uint8_t file_version = 1, header_version = 1, vertex_dim = 3, topo_type = 0;
    uint64_t nv = 0, ne = 0, nf = 0, nc = 0;
    std::vector<IChunk> chunks;
    std::vector<double> pos;                       // nv * dim
    std::vector<char> pos_is_float;
    std::vector<std::array<uint64_t, 2>> edges;
    std::vector<std::vector<uint64_t>> faces, cells;
    std::vector<IProp> props;
    enum Verdict { VALID, INVALID, UNDECIDED } verdict = VALID;
    std::string reason;
    std::vector<IField> fields;
    void invalid(const std::string &r) { if (verdict != INVALID) { verdict = INVALID; reason = r; } }
    void undecided(const std::string &r) { if (verdict == VALID) { verdict = UNDECIDED; reason = r; } }
};

// element size of a registered fixed-size property type; -1: variable (s32), -2: bool, 0: unknown
inline int ovmb_type_size(const std::string &t) {
    static const std::map<std::string, int> m = {{"b", -2}, {"u8", 1}, {"u16", 2}, {"u32", 4}, {"u64", 8}, {"i8", 1}, {"i16", 2}, {"i32", 4}, {"i64", 8},
        {"f", 4}, {"d", 8}, {"s32", -1}, {"vh", 4}, {"eh", 4}, {"heh", 4}, {"fh", 4}, {"hfh", 4}, {"ch", 4},
        {"2d", 16}, {"3d", 24}, {"4d", 32}, {"2f", 8}, {"3f", 12}, {"4f", 16}, {"2u32", 8}, {"3u32", 12}, {"4u32", 16}, {"2i32", 8}, {"3i32", 12}, {"4i32", 16}};
    auto it = m.find(t);
    return it == m.end() ? 0 : it->second;
}

struct IReader {
    const std::string &b; size_t p = 0; bool ok = true;
    explicit IReader(const std::string &s, size_t at = 0) : b(s), p(at) {}
    bool have(size_t n) const { return p + n <= b.size(); }
    uint64_t u(int n) { uint64_t v = 0; if (!have((size_t)n)) { ok = false; p = b.size(); return 0; } for (int i = 0; i < n; ++i) v |= (uint64_t)(unsigned char)b[p + i] << (8 * i); p += n; return v; }
};

inline IFile ovmb_decode(const std::string &img) {
    IFile f;
    auto fld = [&](size_t off, int size, const std::string &name) { f.fields.push_back({off, size, name}); };
    static const unsigned char magic[8] = {'O', 'V', 'M', 'B', 0x0a, 0x0d, 0x0a, 0xff};
    if (img.size() < 48) { f.invalid("truncated-header"); return f; }
    if (memcmp(img.data(), magic, 8) != 0) { f.invalid("magic"); return f; }
    fld(0, 8, "magic");
    IReader r(img, 8);
    f.file_version = (uint8_t)r.u(1); fld(8, 1, "file_version");
    f.header_version = (uint8_t)r.u(1); fld(9, 1, "header_version");
    f.vertex_dim = (uint8_t)r.u(1); fld(10, 1, "vertex_dim");
    f.topo_type = (uint8_t)r.u(1); fld(11, 1, "topo_type");
    uint64_t reserved = r.u(4); fld(12, 4, "header_reserved");
    f.nv = r.u(8); fld(16, 8, "n_verts");
    f.ne = r.u(8); fld(24, 8, "n_edges");
    f.nf = r.u(8); fld(32, 8, "n_faces");
    f.nc = r.u(8); fld(40, 8, "n_cells");
    if (f.header_version != 1) { f.invalid("header_version"); return f; }
    if (reserved != 0) { f.invalid("header-reserved"); return f; }
    if (f.topo_type > 2) { f.invalid("topo_type-enum"); return f; }
    if (f.file_version != 1) f.undecided("file_version");
    if (f.vertex_dim != 3) f.undecided("vertex_dim");
    const uint64_t CAP = 1u << 22;
    if (f.nv > CAP || f.ne > CAP || f.nf > CAP || f.nc > CAP) { f.undecided("huge-counts"); }
    uint64_t vread = 0, eread = 0, fread = 0, cread = 0;
    bool eof_seen = false, dirp_seen = false;
    while (r.p < img.size()) {
        if (eof_seen) { f.invalid("data-after-eof-chunk"); return f; }
        IChunk c;
        c.off = r.p;
        if (!r.have(16)) { f.invalid("truncated-chunk-header"); return f; }
        c.type = img.substr(r.p, 4); r.p += 4; fld(c.off, 4, "chunk_type");
        c.version = (uint8_t)r.u(1); fld(c.off + 4, 1, "chunk_version");
        c.padding = (uint8_t)r.u(1); fld(c.off + 5, 1, "chunk_padding_bytes");
        c.compression = (uint8_t)r.u(1); fld(c.off + 6, 1, "chunk_compression");
        c.flags = (uint8_t)r.u(1); fld(c.off + 7, 1, "chunk_flags");
        c.file_length = r.u(8); fld(c.off + 8, 8, "chunk_file_length");
        if (c.file_length > img.size() - r.p) { f.invalid("chunk-length-exceeds-file"); return f; }
        if (c.padding > c.file_length) { f.invalid("padding-exceeds-length"); return f; }
        c.payload_off = r.p; c.payload_len = (size_t)(c.file_length - c.padding);
        for (size_t i = 0; i < c.padding; ++i) {
            if (i == 0 || i + 1 == c.padding) fld(c.payload_off + c.payload_len + i, 1, "chunk_padding_content");
            if (img[c.payload_off + c.payload_len + i] != 0) { f.invalid("padding-not-zero"); return f; }
        }
        f.chunks.push_back(c);
        size_t end = c.payload_off + c.payload_len;
        bool known = c.type == "VERT" || c.type == "TOPO" || c.type == "DIRP" || c.type == "PROP" || c.type == "EOF ";
        if (c.version != 0) f.undecided("chunk-version");
        if (c.compression != 0) f.undecided("chunk-compression");
        if (c.flags > 1) { f.invalid("chunk-flags-enum"); return f; }
        if (!known) { f.undecided("unknown-chunk-type"); r.p = c.payload_off + (size_t)c.file_length; continue; }
        IReader q(img, c.payload_off);
        auto need = [&](size_t n) { return q.p + n <= end; };
        if (c.type == "EOF ") {
            if (c.payload_len != 0) { f.invalid("eof-chunk-with-payload"); return f; }
            eof_seen = true;
        } else if (c.type == "VERT") {
            if (!need(16)) { f.invalid("vert-header-truncated"); return f; }
            uint64_t first = q.u(8); fld(q.p - 8, 8, "vert_span_first");
            uint64_t count = q.u(4); fld(q.p - 4, 4, "vert_span_count");
            uint8_t enc = (uint8_t)q.u(1); fld(q.p - 1, 1, "vert_encoding");
            uint64_t res = q.u(3); fld(q.p - 3, 3, "vert_reserved");
            if (enc > 2) { f.invalid("vertex-encoding-enum"); return f; }
            if (res != 0) { f.invalid("vert-reserved"); return f; }
            if (first != vread) { f.invalid("vert-span-not-continuing"); return f; }
            if (f.nv - vread < count) { f.invalid("vert-span-exceeds-count"); return f; }
            if (enc == 0) { f.undecided("vertex-encoding-none"); r.p = c.payload_off + (size_t)c.file_length; vread += count; continue; }
            size_t es = enc == 1 ? 4 : 8;
            if ((end - q.p) != count * es * f.vertex_dim) { f.invalid("vert-payload-size"); return f; }
            for (uint64_t i = 0; i < count * f.vertex_dim; ++i) {
                if (enc == 1) { uint32_t u = (uint32_t)q.u(4); float x; memcpy(&x, &u, 4); f.pos.push_back(x); f.pos_is_float.push_back(1); }
                else { uint64_t u = q.u(8); double x; memcpy(&x, &u, 8); f.pos.push_back(x); f.pos_is_float.push_back(0); }
            }
            vread += count;
        } else if (c.type == "TOPO") {
            if (!need(24)) { f.invalid("topo-header-truncated"); return f; }
            uint64_t first = q.u(8); fld(q.p - 8, 8, "topo_span_first");
            uint64_t count = q.u(4); fld(q.p - 4, 4, "topo_span_count");
            uint8_t ent = (uint8_t)q.u(1); fld(q.p - 1, 1, "topo_entity");
            uint8_t val = (uint8_t)q.u(1); fld(q.p - 1, 1, "topo_valence");
            uint8_t venc = (uint8_t)q.u(1); fld(q.p - 1, 1, "topo_valence_encoding");
            uint8_t henc = (uint8_t)q.u(1); fld(q.p - 1, 1, "topo_handle_encoding");
            uint64_t hoff = q.u(8); fld(q.p - 8, 8, "topo_handle_offset");
            auto encok = [](uint8_t e) { return e == 0 || e == 1 || e == 2 || e == 4; };
            if (ent < 1 || ent > 3) { f.invalid("topo-entity-enum"); return f; }
            if (!encok(venc) || !encok(henc)) { f.invalid("int-encoding-enum"); return f; }
            if (henc == 0) { f.invalid("handle-encoding-none"); return f; }
            if ((val != 0) != (venc == 0)) { f.invalid("valence-encoding-contradicts-valence-mode"); return f; }
            uint64_t &readn = ent == 1 ? eread : ent == 2 ? fread : cread;
            uint64_t total = ent == 1 ? f.ne : ent == 2 ? f.nf : f.nc;
            if (first != readn) { f.invalid("topo-span-not-continuing"); return f; }
            if (total - readn < count) { f.invalid("topo-span-exceeds-count"); return f; }
            if (count == 0) f.undecided("empty-topo-chunk");
            if (ent == 1 && val != 2) { f.invalid("edge-valence-not-2"); return f; }
            std::vector<uint64_t> vals;
            uint64_t sum = 0;
            if (val == 0) {
                if (!need(count * venc)) { f.invalid("topo-valences-truncated"); return f; }
                for (uint64_t i = 0; i < count; ++i) { vals.push_back(q.u(venc)); sum += vals.back(); }
            } else { vals.assign(count, val); sum = (uint64_t)val * count; }
            if ((end - q.p) != sum * henc) { f.invalid("topo-payload-size"); return f; }
            uint64_t limit = ent == 1 ? vread : ent == 2 ? 2 * eread : 2 * fread;
            for (uint64_t i = 0; i < count; ++i) {
                std::vector<uint64_t> hs;
                for (uint64_t k = 0; k < vals[i]; ++k) {
                    uint64_t h = q.u(henc) + hoff;
                    if (h >= limit) { f.invalid("handle-out-of-range"); return f; }
                    hs.push_back(h);
                }
                if (ent == 1) f.edges.push_back({hs[0], hs[1]});
                else if (ent == 2) { if (hs.empty()) f.undecided("face-valence-0"); f.faces.push_back(hs); }
                else { if (hs.empty()) f.undecided("cell-valence-0"); f.cells.push_back(hs); }
            }
            if ((f.topo_type == 1 || f.topo_type == 2) && ent >= 2) {
                // a header that promises a tetrahedral / hexahedral mesh contradicts a face or cell of another valence ("inconsistent with the
                // rest of the file"); a variable-valence chunk whose values all fit is merely another encoding the reader documents it refuses
                uint64_t reqv = f.topo_type == 1 ? (ent == 2 ? 3 : 4) : (ent == 2 ? 4 : 6);
                bool contradiction = false;
                for (uint64_t v : vals) if (v != reqv) contradiction = true;
                if (contradiction) { f.invalid(f.topo_type == 1 ? "topo-type-tet-contradicts-valence" : "topo-type-hex-contradicts-valence"); return f; }
                if (val != reqv) f.undecided(f.topo_type == 1 ? "tet-valence" : "hex-valence");
            }
            readn += count;
        } else if (c.type == "DIRP") {
            if (dirp_seen) { f.invalid("second-DIRP"); return f; }
            dirp_seen = true;
            while (q.p < end) {
                IProp pr;
                if (!need(1 + 12)) { f.invalid("dirp-entry-truncated"); return f; }
                pr.entity = (uint8_t)q.u(1); fld(q.p - 1, 1, "dirp_entity");
                if (pr.entity > 6) { f.invalid("property-entity-enum"); return f; }
                auto str = [&](std::string &out, const char *nm) {
                    if (!need(4)) return false;
                    uint64_t len = q.u(4); fld(q.p - 4, 4, nm);
                    if (!need(len)) return false;
                    out = img.substr(q.p, len); q.p += len;
                    return true;
                };
                if (!str(pr.name, "dirp_name_len") || !str(pr.type, "dirp_type_len") || !str(pr.def, "dirp_default_len")) { f.invalid("dirp-entry-truncated"); return f; }
                int ts = ovmb_type_size(pr.type);
                pr.known_type = ts != 0;
                if (!pr.known_type) f.undecided("unknown-property-type");
                else {
                    bool okdef = ts > 0 ? (int)pr.def.size() == ts : ts == -2 ? (pr.def.size() == 1 && (unsigned char)pr.def[0] <= 1)
                                 : (pr.def.size() >= 4 && (size_t)((unsigned char)pr.def[0] | ((unsigned char)pr.def[1] << 8) | ((unsigned char)pr.def[2] << 16) | ((uint32_t)(unsigned char)pr.def[3] << 24)) + 4 == pr.def.size());
                    if (!okdef) f.undecided("serialized-default-malformed");
                }
                f.props.push_back(pr);
            }
        } else if (c.type == "PROP") {
            if (!need(16)) { f.invalid("prop-header-truncated"); return f; }
            uint64_t first = q.u(8); fld(q.p - 8, 8, "prop_span_first");
            uint64_t count = q.u(4); fld(q.p - 4, 4, "prop_span_count");
            uint64_t idx = q.u(4); fld(q.p - 4, 4, "prop_idx");
            if (idx >= f.props.size()) { f.invalid("prop-index-out-of-range"); return f; }
            IProp &pr = f.props[idx];
            uint64_t n = 0;
            switch (pr.entity) { case 0: n = vread; break; case 1: n = eread; break; case 2: n = fread; break; case 3: n = cread; break; case 4: n = 2 * eread; break; case 5: n = 2 * fread; break; default: n = 1; }
            if (count == 0) { if (q.p != end) f.undecided("empty-prop-span-with-payload"); r.p = c.payload_off + (size_t)c.file_length; continue; }   // the writer emits these for kinds without entities
            if (first >= n || n - first < count) { f.invalid("prop-span-out-of-range"); return f; }
            if (!pr.known_type) { r.p = c.payload_off + (size_t)c.file_length; continue; }
            if (pr.elems.size() < first + count) { pr.elems.resize(first + count); pr.have.resize(first + count, 0); }
            int ts = ovmb_type_size(pr.type);
            if (ts > 0) {
                if ((end - q.p) != count * (uint64_t)ts) { f.undecided("prop-payload-size"); r.p = c.payload_off + (size_t)c.file_length; continue; }
                for (uint64_t i = 0; i < count; ++i) { pr.elems[first + i] = img.substr(q.p, ts); pr.have[first + i] = 1; q.p += ts; }
            } else if (ts == -2) {
                if ((end - q.p) != (count + 7) / 8) { f.undecided("prop-payload-size"); r.p = c.payload_off + (size_t)c.file_length; continue; }
                for (uint64_t i = 0; i < count; ++i) { unsigned char byte = (unsigned char)img[q.p + i / 8]; pr.elems[first + i] = std::string(1, (char)((byte >> (i % 8)) & 1)); pr.have[first + i] = 1; }
                q.p = end;
            } else {
                bool bad = false;
                for (uint64_t i = 0; i < count && !bad; ++i) {
                    if (!need(4)) { bad = true; break; }
                    uint64_t len = q.u(4);
                    if (!need(len)) { bad = true; break; }
                    pr.elems[first + i] = img.substr(q.p, len); pr.have[first + i] = 1; q.p += len;
                }
                if (bad || q.p != end) { f.undecided("prop-payload-size"); r.p = c.payload_off + (size_t)c.file_length; continue; }
            }
        }
        r.p = c.payload_off + (size_t)c.file_length;
    }
    if (!eof_seen) { f.invalid("eof-chunk-missing"); return f; }
    if (vread != f.nv && !(f.pos.empty() && vread == 0)) { f.invalid("declared-counts-not-delivered"); return f; }
    if (f.pos.empty() && f.nv > 0 && vread == 0) f.undecided("no-vertex-chunk");   // topology-only file
    if (eread != f.ne || fread != f.nf || cread != f.nc) { f.invalid("declared-counts-not-delivered"); return f; }
    return f;
}

// ------------------------------------------------------------------ encoder with a choice vector
struct IWriter {
    std::string b;
    void u(uint64_t v, int n) { for (int i = 0; i < n; ++i) b.push_back((char)((v >> (8 * i)) & 0xff)); }
    void raw(const std::string &s) { b += s; }
};
inline int width_for(uint64_t maxv) { return maxv <= 0xff ? 1 : maxv <= 0xffff ? 2 : 4; }
inline int widen(int w, Rng &rng) { if (w == 1 && rng.chance(0.4)) return rng.chance(0.5) ? 2 : 4; if (w == 2 && rng.chance(0.4)) return 4; return w; }

struct EncodeChoices { bool split = true, widen = true, offsets = true, extra_chunks = true, float_verts = true, dirp_late = true; };

inline std::string ovmb_encode(const IFile &f, Rng &rng, const EncodeChoices &ch, std::map<std::string, long> *used = nullptr) {
    IWriter w;
    static const unsigned char magic[8] = {'O', 'V', 'M', 'B', 0x0a, 0x0d, 0x0a, 0xff};
    w.b.assign((const char *)magic, 8);
    w.u(1, 1); w.u(1, 1); w.u(f.vertex_dim, 1); w.u(f.topo_type, 1); w.u(0, 4);
    w.u(f.nv, 8); w.u(f.ne, 8); w.u(f.nf, 8); w.u(f.nc, 8);
    auto note = [&](const char *k) { if (used) (*used)[k]++; };
    auto chunk = [&](const std::string &type, const std::string &payload, uint8_t flags = 1) {
        size_t padded = (payload.size() + 7) & ~(size_t)7;
        w.raw(type); w.u(0, 1); w.u(padded - payload.size(), 1); w.u(0, 1); w.u(flags, 1); w.u(padded, 8);
        w.raw(payload); w.b.append(padded - payload.size(), '\0');
    };
    auto maybe_extra = [&]() {
        if (ch.extra_chunks && rng.chance(0.25)) { std::string junk; for (int i = 0, n = (int)rng.below(13); i < n; ++i) junk.push_back((char)rng.below(256)); chunk("XTRA", junk, 0); note("reenc_optional_unknown_chunk"); }
    };
    auto spans = [&](uint64_t n) {
        std::vector<std::pair<uint64_t, uint64_t>> s;
        if (n == 0) return s;
        int parts = ch.split ? 1 + (int)rng.below(3) : 1;
        if ((uint64_t)parts > n) parts = (int)n;
        uint64_t at = 0;
        for (int i = 0; i < parts; ++i) { uint64_t cnt = i + 1 == parts ? n - at : 1 + rng.below(n - at - (parts - i - 1)); s.push_back({at, cnt}); at += cnt; }
        if (s.size() > 1) note("reenc_split_spans");
        return s;
    };
    auto dirp = [&]() {
        if (f.props.empty()) return;
        IWriter d;
        for (auto &p : f.props) { d.u(p.entity, 1); d.u(p.name.size(), 4); d.raw(p.name); d.u(p.type.size(), 4); d.raw(p.type); d.u(p.def.size(), 4); d.raw(p.def); }
        chunk("DIRP", d.b);
    };
    bool late = ch.dirp_late && rng.chance(0.5);
    if (!late) dirp(); else note("reenc_dirp_after_topology");
    maybe_extra();
    // vertices
    if (!f.pos.empty()) {
        bool all_float = ch.float_verts;
        for (double x : f.pos) { float y = (float)x; if (!((double)y == x) || x != x) all_float = false; }
        for (auto &sp : spans(f.nv)) {
            IWriter p;
            bool fl = all_float && rng.chance(0.5);
            if (fl) note("reenc_float_vertices");
            p.u(sp.first, 8); p.u(sp.second, 4); p.u(fl ? 1 : 2, 1); p.u(0, 3);
            for (uint64_t i = sp.first * f.vertex_dim; i < (sp.first + sp.second) * f.vertex_dim; ++i) {
                if (fl) { float y = (float)f.pos[i]; uint32_t u; memcpy(&u, &y, 4); p.u(u, 4); } else { uint64_t u; memcpy(&u, &f.pos[i], 8); p.u(u, 8); }
            }
            chunk("VERT", p.b);
            maybe_extra();
        }
    }
    auto topo = [&](int ent, uint64_t n, auto get) {
        for (auto &sp : spans(n)) {
            uint64_t maxh = 0, minh = ~0ull, maxval = 0, minval = ~0ull;
            for (uint64_t i = sp.first; i < sp.first + sp.second; ++i) { auto hs = get(i); maxval = std::max<uint64_t>(maxval, hs.size()); minval = std::min<uint64_t>(minval, hs.size()); for (uint64_t h : hs) { maxh = std::max(maxh, h); minh = std::min(minh, h); } }
            if (minh == ~0ull) minh = 0;
            uint64_t off = 0;
            if (ch.offsets && minh > 0 && rng.chance(0.5)) { off = 1 + rng.below(minh); note(ent == 1 ? "reenc_handle_offset_edges" : "reenc_handle_offset"); }
            int hw = width_for(maxh - off);
            if (ch.widen) { int w2 = widen(hw, rng); if (w2 != hw) note("reenc_wider_handles"); hw = w2; }
            bool fixed = minval == maxval && maxval <= 255 && maxval > 0 && !(ent != 1 && ch.widen && rng.chance(0.2));
            if (ent == 1) fixed = true;
            if (f.topo_type != 0 && minval == maxval) fixed = true;   // tetrahedral / hexahedral files promise fixed valences
            IWriter p;
            p.u(sp.first, 8); p.u(sp.second, 4); p.u(ent, 1);
            if (fixed) { p.u(maxval, 1); p.u(0, 1); }
            else { int vw = width_for(maxval); if (ch.widen) vw = widen(vw, rng); p.u(0, 1); p.u(vw, 1); }
            p.u(hw, 1); p.u(off, 8);
            if (!fixed) { note("reenc_variable_valence"); int vw = (unsigned char)p.b[14]; for (uint64_t i = sp.first; i < sp.first + sp.second; ++i) p.u(get(i).size(), vw); }
            for (uint64_t i = sp.first; i < sp.first + sp.second; ++i) for (uint64_t h : get(i)) p.u(h - off, hw);
            chunk("TOPO", p.b);
            maybe_extra();
        }
    };
    topo(1, f.ne, [&](uint64_t i) { return std::vector<uint64_t>{f.edges[i][0], f.edges[i][1]}; });
    topo(2, f.nf, [&](uint64_t i) { return f.faces[i]; });
    topo(3, f.nc, [&](uint64_t i) { return f.cells[i]; });
    if (late) dirp();
    for (size_t k = 0; k < f.props.size(); ++k) {
        const IProp &pr = f.props[k];
        if (!pr.known_type) continue;
        int ts = ovmb_type_size(pr.type);
        for (auto &sp : spans(pr.elems.size())) {
            IWriter p;
            p.u(sp.first, 8); p.u(sp.second, 4); p.u(k, 4);
            if (ts == -2) { for (uint64_t i = 0; i < sp.second; i += 8) { unsigned byte = 0; for (uint64_t j = 0; j < 8 && i + j < sp.second; ++j) if (pr.elems[sp.first + i + j][0]) byte |= 1u << j; p.u(byte, 1); } }
            else if (ts == -1) { for (uint64_t i = 0; i < sp.second; ++i) { p.u(pr.elems[sp.first + i].size(), 4); p.raw(pr.elems[sp.first + i]); } }
            else for (uint64_t i = 0; i < sp.second; ++i) p.raw(pr.elems[sp.first + i]);
            chunk("PROP", p.b);
            maybe_extra();
        }
    }
    chunk("EOF ", "");
    return w.b;
}

}  // namespace sim
