// Simulated storage: byte images behind custom streambufs with benign transfer knobs and injectable faults.
#pragma once
#include <cstring>
#include <ios>
#include <stdexcept>
#include <streambuf>
#include <string>
#include "seams.hh"

namespace sim {

struct ReadFaults {
    size_t max_chunk = 4096;          // benign: bytes delivered per underflow
    long eio_at = -1;                 // underflow throws once the read position reaches this byte (stream sets badbit)
    long eof_at = -1;                 // clean EOF at this byte although seekoff(end) reported the full size
    bool seek_fails = false;          // seekoff/seekpos return -1
    long fired_eio = 0, fired_eof = 0, fired_seek = 0, short_reads = 0;
};

class SimIStreamBuf : public std::streambuf {
public:
    SimIStreamBuf(const std::string &image, ReadFaults &f) : img_(image), f_(f) { setg(nullptr, nullptr, nullptr); }
    size_t consumed() const { return base_ + (size_t)(gptr() - eback()); }
protected:
    int_type underflow() override {
        if (gptr() < egptr()) return traits_type::to_int_type(*gptr());
        size_t pos = base_ + (size_t)(egptr() - eback());
        size_t limit = img_.size();
        if (f_.eof_at >= 0 && (size_t)f_.eof_at < limit) limit = (size_t)f_.eof_at;
        if (f_.eio_at >= 0 && pos >= (size_t)f_.eio_at) { ++f_.fired_eio; throw std::ios_base::failure("simulated EIO"); }
        if (pos >= limit) { if (f_.eof_at >= 0 && pos < img_.size()) ++f_.fired_eof; return traits_type::eof(); }
        size_t n = std::min(f_.max_chunk ? f_.max_chunk : 1, limit - pos);
        if (f_.eio_at >= 0 && pos + n > (size_t)f_.eio_at) n = (size_t)f_.eio_at - pos;
        if (n == 0) { ++f_.fired_eio; throw std::ios_base::failure("simulated EIO"); }
        if (n < limit - pos) ++f_.short_reads;
        buf_.assign(img_.data() + pos, n);
        base_ = pos;
        setg(&buf_[0], &buf_[0], &buf_[0] + n);
        ++g_clock.progress_token;
        return traits_type::to_int_type(*gptr());
    }
    pos_type seekoff(off_type off, std::ios_base::seekdir dir, std::ios_base::openmode) override {
        if (f_.seek_fails) { ++f_.fired_seek; return pos_type(off_type(-1)); }
        off_type cur = (off_type)consumed(), target;
        if (dir == std::ios_base::beg) target = off;
        else if (dir == std::ios_base::cur) target = cur + off;
        else target = (off_type)img_.size() + off;
        if (target < 0 || target > (off_type)img_.size()) return pos_type(off_type(-1));
        base_ = (size_t)target;
        setg(nullptr, nullptr, nullptr);
        buf_.clear();
        return pos_type(target);
    }
    pos_type seekpos(pos_type p, std::ios_base::openmode m) override { return seekoff(off_type(p), std::ios_base::beg, m); }
private:
    const std::string &img_;
    ReadFaults &f_;
    std::string buf_;
    size_t base_ = 0;
};

struct WriteFaults {
    size_t max_accept = 4096;  // benign: xsputn accepts at most this many bytes per call (the stream loops)
    long fail_at = -1;         // device full / EIO once this many bytes were accepted
    bool sync_fails = false;
    long fired_fail = 0, fired_sync = 0, short_writes = 0;
};

class SimOStreamBuf : public std::streambuf {
public:
    explicit SimOStreamBuf(WriteFaults &f) : f_(f) {}
    std::string image;
protected:
    int_type overflow(int_type c) override {
        if (traits_type::eq_int_type(c, traits_type::eof())) return traits_type::not_eof(c);
        if (f_.fail_at >= 0 && image.size() >= (size_t)f_.fail_at) { ++f_.fired_fail; return traits_type::eof(); }
        image.push_back(traits_type::to_char_type(c));
        ++g_clock.progress_token;
        return c;
    }
    std::streamsize xsputn(const char *s, std::streamsize n) override {
        std::streamsize done = 0;
        while (done < n) {
            size_t room = (size_t)(n - done);
            if (f_.fail_at >= 0) {
                if (image.size() >= (size_t)f_.fail_at) { ++f_.fired_fail; return done; }
                room = std::min(room, (size_t)f_.fail_at - image.size());
            }
            size_t k = std::min(room, f_.max_accept ? f_.max_accept : 1);
            if (k < (size_t)(n - done)) ++f_.short_writes;
            image.append(s + done, k);
            done += (std::streamsize)k;
            ++g_clock.progress_token;
        }
        return done;
    }
    int sync() override { if (f_.sync_fails) { ++f_.fired_sync; return -1; } return 0; }
private:
    WriteFaults &f_;
};

}  // namespace sim
