// Remaining HIST ops (collector, clearer, mutator, property clients, forker) and the per-op verification loop.
#pragma once
#include "hist_run.hh"

namespace sim {

// ---------------------------------------------------------------- collector
template <class Mesh> void HistRun<Mesh>::op_gc(R &r, const Op &q) {
    int variant = q.a[0] % 4;
    Model &m = r.m;
    if (variant < 2) {
        if (m.deferred && m.needs_gc()) st.add("probe_gc_with_tombstones");
        r.mesh->collect_garbage();
        m.collect();
        return;
    }
    // StatusAttrib::garbage_collection: marks + optional manifoldness + optional handle tracking
    bool manifold = q.a[3] & 1;
    bool tracked = variant == 3;
    Rng mr((uint64_t)q.a[1] * 2654435761u + 17);
    std::vector<VertexHandle> tv; std::vector<HalfEdgeHandle> the; std::vector<HalfFaceHandle> thf; std::vector<CellHandle> tc;
    std::vector<int> tv_uid, the_ref, thf_ref, tc_uid;   // what each tracked handle designates (-1: invalid / tombstone)
    {
        StatusAttrib status(*r.mesh);
        std::vector<std::pair<int, int>> marks;  // (kind, uid)
        for (int k = 0; k < 4; ++k) {
            std::vector<int> ls = m.live_slots(k);
            for (int s : ls) if (mr.chance(0.12)) {
                marks.push_back({k, m.slots[k][s]});
                switch (k) {
                case BV: status[VertexHandle(s)].set_deleted(true); break;
                case BE: status[EdgeHandle(s)].set_deleted(true); break;
                case BF: status[FaceHandle(s)].set_deleted(true); break;
                default: status[CellHandle(s)].set_deleted(true); break;
                }
            }
        }
        if (tracked) {
            Rng tr((uint64_t)q.a[2] * 40503u + 3);
            auto sub = [&](int k, int mult, auto &hv, std::vector<int> &ids, auto mk) {
                int n = m.n(k) * mult;
                for (int s = 0; s < n; ++s) if (tr.chance(0.4)) {
                    hv.push_back(mk(s));
                    int bs = s / mult, u = m.slots[k][bs];
                    ids.push_back(m.alive[k][u] ? (mult == 2 ? 2 * u + (s & 1) : u) : -1);
                }
                if (tr.chance(0.3)) { hv.push_back(mk(-1)); ids.push_back(-1); }
            };
            sub(BV, 1, tv, tv_uid, [](int s) { return VertexHandle(s); });
            sub(BE, 2, the, the_ref, [](int s) { return HalfEdgeHandle(s); });
            sub(BF, 2, thf, thf_ref, [](int s) { return HalfFaceHandle(s); });
            sub(BC, 1, tc, tc_uid, [](int s) { return CellHandle(s); });
        }
        std::vector<VertexHandle *> pv; std::vector<HalfEdgeHandle *> phe; std::vector<HalfFaceHandle *> phf; std::vector<CellHandle *> pc;
        for (auto &h : tv) pv.push_back(&h);
        for (auto &h : the) phe.push_back(&h);
        for (auto &h : thf) phf.push_back(&h);
        for (auto &h : tc) pc.push_back(&h);
        if (tracked) status.garbage_collection(pv, phe, phf, pc, manifold);
        else status.garbage_collection(manifold);
        // --- model
        bool def0 = m.deferred;
        m.deferred = true;
        for (int k = 0; k < 4; ++k)
            for (auto &mk : marks) if (mk.first == k && m.alive[k][mk.second]) m.delete_entity(k, mk.second);
        if (manifold) {
            m.bu[0] = m.bu[1] = m.bu[2] = true;
            for (int s = 0; s < m.n(BF); ++s) { int u = m.slots[BF][s]; if (m.alive[BF][u] && !r.face_has_cell(u)) m.delete_entity(BF, u); }
            for (int s = 0; s < m.n(BE); ++s) { int u = m.slots[BE][s]; if (m.alive[BE][u] && !r.edge_has_face(u)) m.delete_entity(BE, u); }
            for (int s = 0; s < m.n(BV); ++s) {
                int u = m.slots[BV][s];
                if (!m.alive[BV][u]) continue;
                bool has = false;
                for (int e = 0; e < m.n_uids(BE) && !has; ++e) has = m.alive[BE][e] && (m.E[e].from == u || m.E[e].to == u);
                if (!has) m.delete_entity(BV, u);
            }
            st.add("probe_gc_manifoldness");
        }
        m.collect();
        m.set_deferred(def0);
        if (!marks.empty()) st.add("probe_status_gc_marks");
    }
    if (tracked) {
        std::vector<std::string> ow = {"C04"};
        auto chk = [&](int k, bool half, int got, int id, const char *what) {
            int want = -1;
            if (id >= 0) { int u = half ? id / 2 : id; if (m.alive[k][u]) want = half ? 2 * m.slot_of[k][u] + (id & 1) : m.slot_of[k][u]; }
            if (got != want) ctx.fail(ow, "tracked-handle", std::string(what) + " handle became " + std::to_string(got) + " expected " + std::to_string(want));
            if (want < 0 && id >= 0) st.add("probe_gc_tracked_handle_removed");
        };
        for (size_t i = 0; i < tv.size(); ++i) chk(BV, false, tv[i].idx(), tv_uid[i], "vertex");
        for (size_t i = 0; i < the.size(); ++i) chk(BE, true, the[i].idx(), the_ref[i], "halfedge");
        for (size_t i = 0; i < thf.size(); ++i) chk(BF, true, thf[i].idx(), thf_ref[i], "halfface");
        for (size_t i = 0; i < tc.size(); ++i) chk(BC, false, tc[i].idx(), tc_uid[i], "cell");
        st.add("probe_status_gc_tracked");
    }
}

// ---------------------------------------------------------------- clearer
template <class Mesh> void HistRun<Mesh>::op_clear(R &r, const Op &q) {
    bool cp = q.a[0] & 1;
    r.mesh->clear(cp);
    r.m.clear();
    r.lat_v.clear(); r.lat_c.clear();
    for (auto &mp : r.props) {
        if (!mp.attached) continue;
        if (mp.kind != KM) mp.val.clear();   // the mesh entity itself survives clear()
        if (cp) { mp.shared = false; mp.persistent = false; }
    }
    if (cp) r.pos_persistent = false;
    st.add(cp ? "probe_clear_with_props" : "probe_clear_keep_props");
}

// ---------------------------------------------------------------- mutator (set_edge / set_face / set_cell)
template <class Mesh> void HistRun<Mesh>::op_set(R &r, const Op &q, int k) {
    Model &m = r.m;
    if (k == BE) {
        std::vector<int> cand;
        for (int e : m.live_uids(BE)) if (!r.edge_has_face(e)) cand.push_back(e);
        std::vector<int> lv = m.live_uids(BV);
        if (cand.empty() || lv.empty()) return;
        int e = pick(cand, q.a[0]), a = pick(lv, q.a[1]), b = pick(lv, q.a[2]);
        r.mesh->set_edge(r.eh(e), r.vh(a), r.vh(b));
        m.E[e] = {a, b};
        st.add("probe_set_edge");
        return;
    }
    if (KID != 0) return;
    if (k == BF) {
        std::vector<int> cand;
        for (int f : m.live_uids(BF)) if (!r.face_has_cell(f)) cand.push_back(f);
        if (cand.empty()) return;
        int f = pick(cand, q.a[0]);
        // new closed loop: the vertex cycle of some other live face, or the own loop rotated
        std::vector<int> hes = m.F[f];
        std::vector<int> lf = m.live_uids(BF);
        int g = pick(lf, q.a[1]);
        if (g != f && (q.a[2] & 1)) hes = m.hf_hes(2 * g + ((q.a[2] >> 1) & 1));
        else std::rotate(hes.begin(), hes.begin() + (q.a[2] >> 1) % hes.size(), hes.end());
        std::vector<HalfEdgeHandle> hh;
        for (int h : hes) hh.push_back(r.heh(h));
        r.mesh->set_face(r.fh(f), hh);
        m.F[f] = hes;
        no_set_ops = false;
        st.add("probe_set_face");
        return;
    }
    std::vector<int> lc = m.live_uids(BC);
    if (lc.empty()) return;
    int c = pick(lc, q.a[0]);
    std::vector<int> hfs = m.C[c];
    unsigned x = (unsigned)q.a[1];
    for (size_t i = hfs.size(); i > 1; --i) { std::swap(hfs[i - 1], hfs[x % i]); x = x * 1103515245u + 12345u; }
    std::vector<HalfFaceHandle> hh;
    for (int h : hfs) hh.push_back(r.hfh(h));
    r.mesh->set_cell(r.ch(c), hh);
    m.C[c] = hfs;
    no_set_ops = false;
    st.add("probe_set_cell");
}

// ---------------------------------------------------------------- C11: invalid argument lists
template <class Mesh> void HistRun<Mesh>::op_bad(R &r, const Op &q) {
    Model &m = r.m;
    Snap before = take_snap(*r.mesh);
    if (q.kind == "BAD_FACE") {
        std::vector<int> lf = m.live_uids(BF);
        std::vector<int> hes;
        int defect = q.a[1] % 6;
        if (lf.empty()) return;
        hes = m.hf_hes(2 * pick(lf, q.a[0]) + (q.a[2] & 1));
        switch (defect) {
        case 0: if (hes.size() > 1) hes.pop_back(); break;                                    // open
        case 1: hes.push_back(hes[0]); break;                                                 // repeated halfedge (closed twice around or open)
        case 2: hes[0] ^= 1; break;                                                           // one halfedge reversed
        case 3: std::reverse(hes.begin(), hes.end()); break;                                  // reversed order without flipping
        case 5: hes.clear(); st.add("probe_bad_face_empty_list"); break;                          // the empty list
        default: { std::vector<int> le = m.live_uids(BE); if (!le.empty()) hes.push_back(2 * pick(le, q.a[3])); break; }  // foreign edge appended
        }
        st.add(loop_closed(r, hes) ? "probe_bad_face_still_closed" : "probe_bad_face_open");
        w_add_face_he(r, hes, true);
    } else {
        // start from a valid closed surface of free halffaces: reuse a live cell's complement? simplest: build a template on fresh vertices
        if (r.m.n(BV) + 8 > plan.c("maxv", 24) + 16) return;
        int t = KID == 1 ? 0 : KID == 2 ? 1 : q.a[0] % 4;
        const PolyTemplate &T = poly_template(t);
        std::vector<int> vs;
        for (int i = 0; i < T.nv; ++i) vs.push_back(w_add_vertex(r, true));
        std::vector<int> hfs;
        for (auto &fc : T.faces) { std::vector<int> cyc; for (int i : fc) cyc.push_back(vs[i]); int hf = obtain_halfface(r, cyc); if (hf < 0) return; hfs.push_back(hf); }
        if (KID == 2) hfs = {hfs[0], hfs[1], hfs[2], hfs[4], hfs[3], hfs[5]};
        before = take_snap(*r.mesh);
        if (q.a[2] & 16) { for (int &h : hfs) h ^= 1; st.add("probe_bad_cell_all_sides_flipped"); }   // the mirror image is a closed surface too (still a valid argument)
        int defect = q.a[1] % 12;
        if (defect >= 10) {
            // one face replaced by a "flap": a fresh face of the same valence that shares exactly one edge (same direction) with the face it
            // replaces - locally adjacent to its neighbours across that edge, yet the surface is open. Size preserved.
            size_t k = (size_t)(q.a[2] % (int)hfs.size());
            std::vector<int> cyc = m.hf_vertices(hfs[k]);
            size_t j = (size_t)((q.a[2] / 8) % (int)cyc.size());
            std::vector<int> flap = {cyc[j], cyc[(j + 1) % cyc.size()]};
            while (flap.size() < cyc.size()) flap.push_back(w_add_vertex(r, true));
            int hf = obtain_halfface(r, flap);
            if (hf < 0) return;
            hfs[k] = hf;
            before = take_snap(*r.mesh);
            st.add("probe_bad_cell_flap");
        }
        if (defect >= 8 && defect < 10) {
            // an arbitrary list of free halffaces of the mesh as it is (faces built from halfedges of either orientation, 2-gons over duplicate
            // edges, loops ...): numbering patterns the fresh template never has. A free face's two sides form a valid closed surface.
            std::vector<int> freehf;
            for (int f : m.live_uids(BF)) for (int sd = 0; sd < 2; ++sd) if (!r.hf_used(2 * f + sd)) freehf.push_back(2 * f + sd);
            if (freehf.empty()) return;
            hfs.clear();
            int n = 1 + (q.a[2] % 4);
            unsigned x = (unsigned)q.a[3];
            for (int i = 0; i < n; ++i) { int h = freehf[x % freehf.size()]; x = x * 1103515245u + 12345u; if (std::find(hfs.begin(), hfs.end(), h) == hfs.end()) hfs.push_back(h); }
            if (defect == 9 && hfs.size() == 1 && !r.hf_used(hfs[0] ^ 1) && (q.a[2] & 4)) hfs.push_back(hfs[0] ^ 1);
            st.add("probe_bad_cell_arbitrary_free_halffaces");
            if (KID != 0 && surface_closed(r, hfs)) {
                // a closed surface of the right valence that is not a tetrahedron / hexahedron (two triangle "pillows", three quad pillows, lenses
                // between duplicate faces): C11 reads "accepted exactly when closed and of the right valence", C15/C16 read "every cell has 4 / 8
                // distinct vertices". The two statements disagree on this input, so it is not issued (DESIGN section 6).
                std::set<int> dv; for (int h : hfs) for (int v : m.hf_vertices(h)) dv.insert(v);
                if ((KID == 1 && hfs.size() == 4 && dv.size() != 4) || (KID == 2 && hfs.size() == 6 && dv.size() != 8)) { st.add("probe_kernel_closed_non_tet_hex_list_skipped"); return; }
            }
        }
        switch (defect) {
        case 6: { size_t i = (size_t)(q.a[2] % (int)hfs.size()), j = (i + 1 + (size_t)((q.a[2] / 32) % (int)(hfs.size() - 1))) % hfs.size(); hfs[i] = hfs[j]; } st.add("probe_bad_cell_same_size_duplicate"); break;   // one entry replaced by a copy of another (size preserved)
        case 7: hfs[(size_t)(q.a[2] % (int)hfs.size())] ^= 1; hfs[0] ^= (q.a[2] & 8) ? 1 : 0; break;            // wrong side(s), size preserved
        case 5: hfs.clear(); st.add("probe_bad_cell_empty_list"); break;   // the empty list
        case 0: hfs.pop_back(); break;                       // missing face
        case 1: hfs.push_back(hfs[0]); break;                // doubled halfface
        case 2: hfs[0] ^= 1; break;                          // one halfface with the wrong orientation
        case 3: hfs.push_back(hfs[0] ^ 1); break;            // both orientations of one face
        default: break;                                      // valid (control)
        }
        bool ok = surface_closed(r, hfs);
        if (KID == 1 && hfs.size() != 4) ok = false;
        if (KID == 2 && hfs.size() != 6) ok = false;
        st.add(ok ? "probe_bad_cell_control_valid" : "probe_bad_cell_invalid");
        w_add_cell(r, hfs, true, true, ok);
    }
    // a rejected call leaves every observable aspect unchanged
    Snap after = take_snap(*r.mesh);
    if (after.n[BF] == before.n[BF] && after.n[BC] == before.n[BC]) {
        if (snap_digest(after) != snap_digest(before)) ctx.fail(ow_struct, "changed-on-reject", q.kind);
        st.add("probe_rejected_call_checked");
    }
}

// ---------------------------------------------------------------- property clients + registry model
template <class Mesh> void HistRun<Mesh>::op_prop(R &r, const Op &q) {
    const std::string &k = q.kind;
    int ri = cur;
    auto model_alive = [&](const MProp &mp) {
        if (!mp.attached) return false;
        if (mp.persistent) return true;
        for (int i = 0; i < NHELD; ++i) if (held[i].h && held[i].rep == ri && held[i].mid == mp.id) return true;
        return false;
    };
    auto find = [&](int kind, int type, const std::string &name) -> std::vector<int> {
        std::vector<int> res;
        if (name.empty()) return res;
        for (auto &mp : r.props) if (model_alive(mp) && mp.shared && mp.kind == kind && mp.type == type && mp.name == name) res.push_back(mp.id);
        return res;
    };
    std::vector<std::string> OW = {"C14"};
    auto drop_slot = [&](int s) { held[s].h.reset(); held[s].rep = -1; held[s].mid = -1; };
    if (k == "P_REQUEST" || k == "P_CREATE_SHARED" || k == "P_CREATE_PERSISTENT" || k == "P_CREATE_PRIVATE" || k == "P_GET" || k == "P_EXISTS") {
        int kind = q.a[0] % 7, type = q.a[1] % NTYPES, nm = q.a[2] % 5, slot = q.a[3] % NHELD;
        bool anon_shared = (k == "P_CREATE_SHARED" || k == "P_CREATE_PERSISTENT") && nm == 0;
        if (anon_shared && !ctx.is("C14")) { nm = 1; anon_shared = false; }
        std::string name = NAME_POOL[nm];
        if (plan.c("uniq_names", 0) && nm != 0) name += std::to_string(q.a[2] % 97);
        int call = k == "P_REQUEST" ? R_REQUEST : k == "P_CREATE_SHARED" ? R_CREATE_SHARED : k == "P_CREATE_PERSISTENT" ? R_CREATE_PERSISTENT
                   : k == "P_CREATE_PRIVATE" ? R_CREATE_PRIVATE : k == "P_GET" ? R_GET : R_EXISTS;
        std::vector<int> found = find(kind, type, name);
        // heap salt: perturb the address order of storages (tracker iteration order is address order)
        for (int i = 0; i < (salt + q.a[3]) % 4; ++i) salt_blocks.emplace_back(new char[96 + 32 * ((salt + i) % 5)]);
        if (salt_blocks.size() > 6) salt_blocks.erase(salt_blocks.begin(), salt_blocks.begin() + 3);
        int defn = 1000000 + next_uniq();
        bool ex = false;
        std::unique_ptr<PropHolderBase> h;
        if (anon_shared) {
            // "shared implies named": an anonymous shared / persistent property must be refused (exception or no value), never created
            size_t before = n_props_of(*r.mesh, kind);
            bool threw = false;
            try { h = reg_call(*r.mesh, call, kind, type, name, defn, &ex); } catch (const std::runtime_error &) { threw = true; }
            st.add("probe_create_shared_with_empty_name");
            if (h || n_props_of(*r.mesh, kind) != before) ctx.fail(OW, "create-anonymous-shared", k + "(\"\") created an anonymous " + (call == R_CREATE_PERSISTENT ? "persistent" : "shared") + " property");
            (void)threw;
            return;
        }
        h = reg_call(*r.mesh, call, kind, type, name, defn, &ex);
        if (call == R_EXISTS) {
            if (ex != !found.empty()) ctx.fail(OW, "lookup", "property_exists(" + name + ") = " + std::to_string(ex));
            return;
        }
        bool expect_handle = call == R_REQUEST || call == R_CREATE_PRIVATE || ((call == R_CREATE_SHARED || call == R_CREATE_PERSISTENT) && found.empty()) || (call == R_GET && !found.empty());
        if ((bool)h != expect_handle) ctx.fail(OW, call == R_GET ? "lookup" : "create", k + "(" + pkind_name(kind) + "," + ptype_name(type) + ",'" + name + "') returned " + (h ? "a handle" : "nothing"));
        if (!h) return;
        bool reuse = (call == R_REQUEST || call == R_GET) && !found.empty();
        int mid;
        if (reuse) {
            // must be the same storage as the live shared property of that name
            mid = -1;
            for (int f : found) {
                bool matched = false, any = false;
                for (int i = 0; i < NHELD; ++i) if (held[i].h && held[i].rep == ri && held[i].mid == f) { any = true; matched = held[i].h->storage_id() == h->storage_id(); break; }
                if (!any) for (auto &pi : list_persistent(*r.mesh)) if (pi.st == h->storage_id()) matched = true;
                if (matched) { mid = f; break; }
            }
            if (mid < 0) ctx.fail(OW, "lookup", k + " '" + name + "' did not return the existing shared storage");
            st.add("probe_request_returns_existing");
        } else {
            MProp mp;
            mp.id = (int)r.props.size(); mp.kind = kind; mp.type = type; mp.name = name; mp.defn = defn;
            mp.shared = call == R_CREATE_SHARED || call == R_CREATE_PERSISTENT || (call == R_REQUEST && !name.empty());
            mp.persistent = call == R_CREATE_PERSISTENT;
            r.props.push_back(mp);
            mid = mp.id;
            if (!h->def_equals(defn)) ctx.fail(OW, "create", "default value not stored");
        }
        held[slot].h = std::move(h);   // dropping whatever the slot held before
        held[slot].rep = ri; held[slot].mid = mid;
        held[slot].h->model_id = mid;
        return;
    }
    if (k == "P_POS_PERSIST") {
        bool on = q.a[0] & 1;
        if (!r.mesh->vertex_positions().shared()) return;   // after clear(true) / reading a file the position property is private: set_persistent would (rightly) throw
        r.mesh->set_persistent(r.mesh->vertex_positions(), on);
        r.pos_persistent = on;
        st.add("probe_position_made_persistent");
        return;
    }
    int slot = q.a[0] % NHELD;
    if (k == "P_CLEAR_KIND" || k == "P_CLEAR_ALL") {
        int kind = q.a[0] % 7;
        if (k == "P_CLEAR_ALL") r.mesh->clear_all_props(); else clear_props_of(*r.mesh, kind);
        for (auto &mp : r.props) if (mp.attached && (k == "P_CLEAR_ALL" || mp.kind == kind)) { mp.shared = false; mp.persistent = false; }
        if (k == "P_CLEAR_ALL" || kind == KV) r.pos_persistent = false;
        st.add("probe_clear_props");
        return;
    }
    Held &H = held[slot];
    if (!H.h) return;
    if (k == "P_DROP") { drop_slot(slot); return; }
    if (k == "P_COPY" || k == "P_MOVE") {
        int dst = q.a[1] % NHELD;
        if (dst == slot) return;
        std::unique_ptr<PropHolderBase> c = H.h->copy_handle();
        held[dst].h = std::move(c); held[dst].rep = H.rep; held[dst].mid = H.mid; held[dst].frozen = H.frozen;
        if (k == "P_MOVE") drop_slot(slot);
        return;
    }
    if (H.rep < 0 || !reps[H.rep]) return;      // detached handles: values are checked, not written
    R &hr = *reps[H.rep];
    MProp &mp = hr.props[H.mid];
    if (!mp.attached) return;
    if (k == "P_WRITE") {
        int ns = hr.nslots(mp.kind);
        std::vector<int> ls;
        for (int s = 0; s < ns; ++s) if (hr.key_of_slot(mp.kind, s) >= 0) ls.push_back(s);
        if (ls.empty()) return;
        int s = pick(ls, q.a[1]);
        int n = next_uniq();
        H.h->set(s, n);
        mp.val[hr.key_of_slot(mp.kind, s)] = n;
        return;
    }
    if (k == "P_FILL") {
        int n = next_uniq();
        H.h->fill(n);
        int ns = hr.nslots(mp.kind);
        for (int s = 0; s < ns; ++s) { int key = hr.key_of_slot(mp.kind, s); if (key >= 0) mp.val[key] = n; }
        return;
    }
    if (H.rep != ri) return;   // registry transitions go through the mesh that owns the storage: use the current one only
    if (k == "P_SET_SHARED" || k == "P_SET_PERSISTENT") {
        bool on = q.a[1] & 1;
        bool expect_throw = false;
        bool pers = k == "P_SET_PERSISTENT";
        if (pers) { if (on != mp.persistent && on && !mp.shared) expect_throw = true; }
        else if (on != mp.shared && on) { if (mp.name.empty()) expect_throw = true; else if (!find(mp.kind, mp.type, mp.name).empty()) expect_throw = true; }
        bool threw = false;
        try { if (pers) H.h->set_persistent(*r.mesh, on); else H.h->set_shared(*r.mesh, on); }
        catch (const std::runtime_error &) { threw = true; }
        if (threw != expect_throw) ctx.fail(OW, "exception", k + (threw ? " threw unexpectedly" : " did not throw") + " name='" + mp.name + "'");
        if (threw) { st.add("probe_registry_transition_refused"); return; }
        if (pers) mp.persistent = on;
        else { mp.shared = on; if (!on) mp.persistent = false; }
        return;
    }
    if (k == "P_SET_NAME") {
        std::string name = NAME_POOL[q.a[1] % 5];
        bool breaks = mp.shared && (name.empty() || (name != mp.name && !find(mp.kind, mp.type, name).empty()));
        bool threw = false;
        try { H.h->set_name(name); } catch (const std::exception &) { threw = true; }
        if (breaks) {
            st.add("probe_set_name_would_break_invariant");
            if (!threw) ctx.fail(OW, "set_name-breaks-invariant", "set_name('" + name + "') on a shared property succeeded" + (name.empty() ? " (anonymous shared)" : " (duplicate shared name)"));
            return;
        }
        if (threw) ctx.fail(OW, "exception", "set_name threw unexpectedly");
        mp.name = name;
        return;
    }
}

}  // namespace sim
