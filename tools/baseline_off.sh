#!/bin/sh
# Rebuild /repo's own CMake build (no OVM_VERIF guard defined anywhere) and run its test suite.
# Results are compared with /root/.vp/BASELINE.json's stable passes by the harness.
set -e
cd /repo
if [ ! -f _build/build.ninja ] && [ ! -f _build/Makefile ]; then
    cmake -G Ninja -B _build -DCMAKE_BUILD_TYPE=RelWithDebInfo >/dev/null
fi
cmake --build _build -j16 2>&1 | tail -3
ctest --test-dir _build -j8 --timeout 900 "$@"
