// HIST world: plan generator (pure function of the seed; touches no OpenVolumeMesh code) and kernel dispatch.
#include "kit.hh"

namespace sim {
RunResult hist_execute_poly(const Plan &p);
RunResult hist_execute_tet(const Plan &p);
RunResult hist_execute_hex(const Plan &p);

namespace {
struct W { const char *kind; int w; };

std::vector<W> base_weights() {
    return {{"ADD_V", 6}, {"ADD_E", 5}, {"ADD_F_V", 6}, {"ADD_F_HE", 4}, {"ADD_TET", 11}, {"ADD_HEX", 3}, {"ADD_PRISM", 3}, {"ADD_PYR", 3},
            {"DEL_V", 3}, {"DEL_E", 3}, {"DEL_F", 3}, {"DEL_C", 4}, {"SWAP_V", 2}, {"SWAP_E", 2}, {"SWAP_F", 2}, {"SWAP_C", 2},
            {"GC", 3}, {"MODE", 2}, {"BU", 2}, {"CLEAR", 0}, {"SET_E", 1}, {"SET_F", 1}, {"SET_C", 1},
            {"P_REQUEST", 3}, {"P_CREATE_PRIVATE", 1}, {"P_WRITE", 6}, {"P_FILL", 1}, {"P_DROP", 1}, {"P_COPY", 1},
            {"BAD_FACE", 0}, {"BAD_CELL", 0}, {"FORK_COPY", 0}, {"FORK_ASSIGN", 0}, {"FORK_CROSS", 0}, {"P_POS_PERSIST", 0}, {"FORK_SELF", 0}, {"DESTROY", 0}, {"USE", 0},
            {"P_CREATE_SHARED", 0}, {"P_CREATE_PERSISTENT", 0}, {"P_GET", 0}, {"P_EXISTS", 0}, {"P_SET_SHARED", 0}, {"P_SET_PERSISTENT", 0},
            {"P_SET_NAME", 0}, {"P_MOVE", 0}, {"P_CLEAR_KIND", 0}, {"P_CLEAR_ALL", 0}, {"COLLAPSE", 0}, {"RESTART", 0}, {"ROUNDTRIP", 0}, {"FAULT_LOAD", 0}, {"SWEEP", 0}, {"SET_POS", 0}, {"BIG", 0}, {"BIG_VALENCE", 0}, {"OPEN_CELL", 0}, {"OBSERVE", 1}, {"RESERVE", 1}, {"ADD_PILLOW", 1}, {"ADD_FAN", 1}, {"FORK_ASSIGN_BARE", 0}};
}
void setw(std::vector<W> &w, const char *k, int v) { for (auto &x : w) if (!strcmp(x.kind, k)) x.w = v; }
void mulw(std::vector<W> &w, const char *prefix, int num, int den = 1) { for (auto &x : w) if (!strncmp(x.kind, prefix, strlen(prefix))) x.w = x.w * num / den; }

struct HistWorld : World {
    Plan generate(const std::string &prop, uint64_t seed, bool thorough) override {
        Plan p;
        p.prop = prop; p.world = "HIST"; p.seed = seed;
        Rng master(seed);
        Rng cfg = master.fork("config"), sch = master.fork("scheduler"), ar = master.fork("args");
        int len_cap = 0;
        std::vector<W> w = base_weights();
        // kernel
        int kr = (int)cfg.below(10);
        p.kernel = kr < 6 ? "poly" : kr < 8 ? "tet" : "hex";
        if (prop == "C15") p.kernel = "tet";
        if (prop == "C16") p.kernel = "hex";
        if (prop == "C14") p.kernel = "poly";
        // per-property workload emphasis
        if (prop == "C02") { mulw(w, "DEL_", 3); setw(w, "MODE", 5); setw(w, "CLEAR", 1); setw(w, "BU", 3); }
        if (prop == "C03") { if (p.kernel == "tet") setw(w, "COLLAPSE", 5); mulw(w, "P_", 2); mulw(w, "DEL_", 2); mulw(w, "SWAP_", 2); setw(w, "GC", 5); setw(w, "CLEAR", 1); setw(w, "P_CREATE_PERSISTENT", 1); setw(w, "P_CREATE_SHARED", 1); setw(w, "RESERVE", 3); }
        if (prop == "C04") { mulw(w, "DEL_", 3); setw(w, "GC", 12); setw(w, "MODE", 5); }
        if (prop == "C08") { setw(w, "BAD_FACE", 4); }
        if (prop == "C09") { setw(w, "SET_F", 0); setw(w, "SET_C", 0); setw(w, "ADD_TET", 18); setw(w, "BU", 3); setw(w, "DEL_C", 6); setw(w, "DEL_F", 4); setw(w, "ADD_PILLOW", 3); }
        if (prop == "C11") { setw(w, "BAD_FACE", 8); setw(w, "BAD_CELL", 8); mulw(w, "ADD_", 2); setw(w, "BU", 3); }
        if (prop == "C12") { setw(w, "BU", 12); mulw(w, "DEL_", 2); mulw(w, "SWAP_", 2); setw(w, "GC", 5); setw(w, "MODE", 4); }
        if (prop == "C13") { setw(w, "FORK_COPY", 8); setw(w, "FORK_ASSIGN", 8); setw(w, "FORK_CROSS", 5); setw(w, "FORK_ASSIGN_BARE", 3); setw(w, "P_POS_PERSIST", 2); setw(w, "FORK_SELF", 2); setw(w, "DESTROY", 3); setw(w, "USE", 8);
                             setw(w, "P_CREATE_PERSISTENT", 4); setw(w, "P_CREATE_SHARED", 2); mulw(w, "P_W", 2); }
        if (prop == "C14") { mulw(w, "ADD_", 1, 4); mulw(w, "DEL_", 1, 3); mulw(w, "SWAP_", 1, 2);
                             for (const char *k : {"P_REQUEST", "P_CREATE_SHARED", "P_CREATE_PERSISTENT", "P_CREATE_PRIVATE", "P_GET", "P_EXISTS", "P_SET_SHARED", "P_SET_PERSISTENT"}) setw(w, k, 8);
                             setw(w, "P_SET_NAME", 3); setw(w, "P_MOVE", 3); setw(w, "P_COPY", 5); setw(w, "P_DROP", 8); setw(w, "P_CLEAR_KIND", 2); setw(w, "P_CLEAR_ALL", 1);
                             setw(w, "CLEAR", 2); setw(w, "FORK_COPY", 3); setw(w, "FORK_ASSIGN", 2); setw(w, "FORK_ASSIGN_BARE", 1); setw(w, "DESTROY", 3); setw(w, "USE", 4); }
        if (prop == "C15") { setw(w, "COLLAPSE", 8); mulw(w, "DEL_", 2); setw(w, "BAD_CELL", 2); setw(w, "BAD_FACE", 2); }
        if (prop == "C16") { setw(w, "ADD_HEX", 16); mulw(w, "DEL_", 2); setw(w, "BAD_CELL", 2); setw(w, "BAD_FACE", 2); }
        if (prop == "C17") { mulw(w, "SWAP_", 6); mulw(w, "DEL_", 2); setw(w, "BU", 3); }
        if (prop == "C06") { setw(w, "ROUNDTRIP", 14); setw(w, "RESTART", 2); setw(w, "P_CREATE_PERSISTENT", 5); setw(w, "SET_POS", 3); setw(w, "BIG", 1); setw(w, "BIG_VALENCE", 1); setw(w, "OPEN_CELL", 2); setw(w, "P_POS_PERSIST", 1); setw(w, "GC", 6); mulw(w, "SWAP_", 1, 2); setw(w, "BU", 0); }
        if (prop == "C07") { setw(w, "FAULT_LOAD", 30); setw(w, "P_CREATE_PERSISTENT", 4); setw(w, "GC", 4); setw(w, "BU", 0); mulw(w, "SWAP_", 0); setw(w, "SET_E", 0); setw(w, "SET_F", 0); setw(w, "SET_C", 0); }
        if (prop == "C18") { setw(w, "ADD_PILLOW", 3); setw(w, "SWEEP", 24); setw(w, "P_CREATE_PERSISTENT", 4); setw(w, "GC", 4); setw(w, "BU", 0); mulw(w, "SWAP_", 0); setw(w, "SET_E", 0); setw(w, "SET_F", 0); setw(w, "SET_C", 0); }
        if (prop == "C01") setw(w, "RESTART", 1);
        if (prop == "C20") { setw(w, "BU", 0); setw(w, "CLEAR", 0); setw(w, "P_REQUEST", 6); setw(w, "P_CREATE_PERSISTENT", 2); len_cap = 40; }
        if (p.kernel != "poly") setw(w, "ADD_PILLOW", 0);
        if (p.kernel == "hex") setw(w, "ADD_FAN", 0);
        p.cfg["fan_big"] = cfg.chance(prop == "C20" || prop == "C05" || prop == "C01" || prop == "C09" ? 0.35 : 0.12) ? 1 : 0;
        if (p.kernel == "tet") { setw(w, "ADD_HEX", 0); setw(w, "ADD_PRISM", 0); setw(w, "ADD_PYR", 0); setw(w, "SET_F", 0); setw(w, "SET_C", 0); }
        if (p.kernel == "hex") { setw(w, "ADD_TET", 0); setw(w, "ADD_PRISM", 0); setw(w, "ADD_PYR", 0); setw(w, "SET_F", 0); setw(w, "SET_C", 0); for (auto &x : w) if (!strcmp(x.kind, "ADD_HEX")) x.w = std::max(x.w, 12); }
        // swarm: every run turns some op kinds off and emphasises others
        static const int fac[6] = {0, 1, 1, 1, 2, 4};
        for (auto &x : w) x.w *= fac[cfg.below(6)];
        // always keep a way to grow the mesh
        bool grow = false;
        for (auto &x : w) if (!strncmp(x.kind, "ADD_", 4) && x.w > 0 && strcmp(x.kind, "ADD_V") && strcmp(x.kind, "ADD_E") && strcmp(x.kind, "ADD_PILLOW") && strcmp(x.kind, "ADD_FAN")) grow = true;
        if (!grow) setw(w, p.kernel == "hex" ? "ADD_HEX" : "ADD_TET", 10);
        p.cfg["deferred0"] = cfg.below(2); p.cfg["fast0"] = cfg.below(2);
        p.cfg["bu0"] = (prop == "C12" || prop == "C02" || prop == "C11" || prop == "C17" || prop == "C04" || prop == "C03") ? (cfg.chance(0.5) ? 7 : (long)cfg.below(8)) : 7;
        p.cfg["maxv"] = 8 + (long)cfg.below(thorough ? 33 : 25);
        p.cfg["salt"] = (long)cfg.below(16);
        int len = 6 + (int)cfg.below(thorough ? 115 : 75);
        bool heavy = prop == "C01" || prop == "C05" || prop == "C08" || prop == "C09" || prop == "C10" || prop == "C12" || prop == "C15" || prop == "C16";
        if (len_cap && len > len_cap) len = len_cap;
        if (prop == "C20") p.cfg["bu0"] = 7;
        if (prop == "C06") p.cfg["big_ok"] = thorough ? 1 : 0;
        if (prop == "C18") p.cfg["sweep_complete"] = thorough ? 1 : 0;
        if (prop == "C06" || prop == "C07" || prop == "C18") { p.cfg["bu0"] = 7; len = 4 + (int)cfg.below(thorough ? 40 : 24); }
        p.cfg["battery_every"] = prop == "C05" ? (len > 30 ? 5 : 2) : (heavy && len > 40 ? 3 : 1);
        std::vector<int> wv;
        for (auto &x : w) wv.push_back(x.w);
        // a short build-up prefix so that most runs have cells early
        int prefix = (int)cfg.below(4);
        for (int i = 0; i < prefix; ++i) { Op q; q.kind = p.kernel == "hex" ? "ADD_HEX" : "ADD_TET"; for (int &a : q.a) a = ar.arg(); p.ops.push_back(q); }
        for (int i = 0; i < len; ++i) {
            Op q;
            q.kind = w[sch.weighted(wv)].kind;
            for (int &a : q.a) a = ar.arg();
            p.ops.push_back(q);
        }
        return p;
    }
    RunResult execute(const Plan &p) override {
        if (p.kernel == "tet") return hist_execute_tet(p);
        if (p.kernel == "hex") return hist_execute_hex(p);
        return hist_execute_poly(p);
    }
    std::string rule(const std::string &prop) override {
        (void)prop;
        return "cases = seeded plans (op lists of cooperating clients: builder, mutator, deleter, swapper, collector, toggler, clearer, "
               "property clients, forker) executed on real meshes against the reference model; a case counts as non-trivial and "
               "distinct by the 64-bit digest of a reached mesh state on which this property's oracle was evaluated non-vacuously";
    }
};
WorldReg reg_hist("HIST", [] { return (World *)new HistWorld(); });
}  // namespace
}  // namespace sim
