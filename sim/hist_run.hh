// HIST world executor: interprets a Plan op by op on real meshes, keeps the reference model in step,
// verifies model == SUT after every op and runs the batteries of the property under check.
#pragma once
#include "hist.hh"
#include "batteries_kernels.hh"

namespace sim {

struct IFile;
extern std::string g_scratch_dir;
static const int NHELD = 8;
static const char *const NAME_POOL[5] = {"", "alpha", "beta", "gamma", "delta"};

template <class Mesh> struct HistRun {
    using R = Rep<Mesh>;
    static constexpr int KID = KernelOf<Mesh>::id;
    const Plan &plan;
    Ctx ctx;
    RunStats &st;
    std::vector<std::unique_ptr<R>> reps;
    int cur = 0;
    struct Held { std::unique_ptr<PropHolderBase> h; int rep = -1; int mid = -1; std::vector<int> frozen; };
    Held held[NHELD];
    int uniq = 100;
    std::vector<std::string> ow_struct, ow_props;   // owners of the baseline oracles for the op in progress
    std::vector<std::unique_ptr<char[]>> salt_blocks;
    int salt = 0;
    uint64_t loghash = 0xcbf29ce484222325ULL;
    bool no_set_ops = true;       // C09 excludes histories containing set_face/set_cell
    bool exact_only = false;      // C17: no renumbering fallback
    std::string last_kind;
    std::vector<std::string> tri;

    HistRun(const Plan &p, RunStats &s) : plan(p), st(s) { ctx.P = p.prop; ctx.st = &s; }

    R &rep() { return *reps[cur]; }
    int next_uniq() { return ++uniq; }
    bool any_bu_off(const R &r) const { return !(r.m.bu[0] && r.m.bu[1] && r.m.bu[2]); }

    // ------------------------------------------------------------ adopt entities the SUT appended
    void adopt(R &r) {
        Mesh &M = *r.mesh;
        Model &m = r.m;
        while (m.n(BV) < (int)M.n_vertices()) { int u = m.add_vertex(); r.vpos.resize(u + 1, INT_MIN); r.tv[VertexHandle(m.slot_of[BV][u])] = u; }
        while (m.n(BE) < (int)M.n_edges()) {
            int s = m.n(BE);
            const auto &e = M.edge(EdgeHandle(s));
            int f = e.from_vertex().idx(), t = e.to_vertex().idx();
            if (f < 0 || t < 0 || f >= m.n(BV) || t >= m.n(BV)) ctx.fail(ow_struct, "new-edge-range", "edge " + std::to_string(s));
            int u = m.add_edge(m.slots[BV][f], m.slots[BV][t]);
            r.te[EdgeHandle(s)] = u; r.the[HalfEdgeHandle(2 * s)] = 2 * u; r.the[HalfEdgeHandle(2 * s + 1)] = 2 * u + 1;
        }
        while (m.n(BF) < (int)M.n_faces()) {
            int s = m.n(BF);
            std::vector<int> hes;
            for (auto h : M.face(FaceHandle(s)).halfedges()) {
                if (h.idx() < 0 || h.idx() >= 2 * m.n(BE)) ctx.fail(ow_struct, "new-face-range", "face " + std::to_string(s));
                hes.push_back(m.he_ref_of_slot(h.idx()));
            }
            int u = m.add_face(hes);
            r.tf[FaceHandle(s)] = u; r.thf[HalfFaceHandle(2 * s)] = 2 * u; r.thf[HalfFaceHandle(2 * s + 1)] = 2 * u + 1;
        }
        while (m.n(BC) < (int)M.n_cells()) {
            int s = m.n(BC);
            std::vector<int> hfs;
            for (auto h : M.cell(CellHandle(s)).halffaces()) {
                if (h.idx() < 0 || h.idx() >= 2 * m.n(BF)) ctx.fail(ow_struct, "new-cell-range", "cell " + std::to_string(s));
                hfs.push_back(m.hf_ref_of_slot(h.idx()));
            }
            int u = m.add_cell(hfs);
            r.tc[CellHandle(s)] = u;
        }
    }

    // ------------------------------------------------------------ structure: model == SUT
    std::string structure_diff(const R &r, const Snap &s) const {
        const Model &m = r.m;
        static const char *kn[4] = {"vertices", "edges", "faces", "cells"};
        for (int k = 0; k < 4; ++k) {
            if (s.n[k] != m.n(k)) return std::string("counters: n_") + kn[k] + " sut=" + std::to_string(s.n[k]) + " model=" + std::to_string(m.n(k));
            if (s.nlog[k] != m.n_logical(k)) return std::string("counters: n_logical_") + kn[k] + " sut=" + std::to_string(s.nlog[k]) + " model=" + std::to_string(m.n_logical(k));
        }
        if (s.nhe != 2L * m.n(BE) || s.nhf != 2L * m.n(BF)) return "counters: n_halfedges/n_halffaces sut=" + std::to_string(s.nhe) + "/" + std::to_string(s.nhf);
        if (s.nlog_he != 2L * m.n_logical(BE) || s.nlog_hf != 2L * m.n_logical(BF)) return "counters: n_logical_halfedges/halffaces sut=" + std::to_string(s.nlog_he) + "/" + std::to_string(s.nlog_hf);
        if (s.half_del_mismatch >= 0) return "counters: is_deleted of half-entity " + std::to_string(s.half_del_mismatch % 1000000) + (s.half_del_mismatch >= 1000000 ? " (halfface)" : " (halfedge)") + " differs from its parent's";
        if (s.needs_gc != m.needs_gc()) return "counters: needs_garbage_collection sut=" + std::to_string(s.needs_gc);
        if (s.genus != m.genus()) return "counters: genus sut=" + std::to_string(s.genus) + " model=" + std::to_string(m.genus());
        if (s.deferred != m.deferred || s.fast != m.fast) return "flags: deletion mode";
        for (int i = 0; i < 3; ++i) if (s.bu[i] != m.bu[i]) return "flags: bottom-up kind " + std::to_string(i);
        for (int k = 0; k < 4; ++k)
            for (int i = 0; i < s.n[k]; ++i)
                if ((bool)s.del[k][i] != !m.slot_live(k, i)) return std::string("deleted-flag: ") + kn[k] + " slot " + std::to_string(i) + " sut=" + std::to_string((int)s.del[k][i]);
        for (int i = 0; i < s.n[BE]; ++i) {
            if (s.del[BE][i]) continue;
            const MEdge &e = m.E[m.slots[BE][i]];
            if (m.slot_of[BV][e.from] != s.E[i].first || m.slot_of[BV][e.to] != s.E[i].second)
                return "survivor-def: edge slot " + std::to_string(i) + " sut=(" + std::to_string(s.E[i].first) + "," + std::to_string(s.E[i].second) +
                       ") model=(" + std::to_string(m.slot_of[BV][e.from]) + "," + std::to_string(m.slot_of[BV][e.to]) + ")";
        }
        for (int i = 0; i < s.n[BF]; ++i) {
            if (s.del[BF][i]) continue;
            std::vector<int> want;
            for (int h : m.F[m.slots[BF][i]]) want.push_back(m.he_slot_of_ref(h));
            if (want != s.F[i]) return "survivor-def: face slot " + std::to_string(i) + " sut=" + vec_str(s.F[i]) + " model=" + vec_str(want);
        }
        for (int i = 0; i < s.n[BC]; ++i) {
            if (s.del[BC][i]) continue;
            std::vector<int> want;
            for (int h : m.C[m.slots[BC][i]]) want.push_back(m.hf_slot_of_ref(h));
            if (want != s.C[i]) return "survivor-def: cell slot " + std::to_string(i) + " sut=" + vec_str(s.C[i]) + " model=" + vec_str(want);
        }
        return "";
    }
    // "possibly under a new handle": accept any renumbering under which the uid tags give an isomorphism
    bool try_renumbering(R &r, const Snap &s) {
        Model &m = r.m;
        Model save = m;
        for (int k = 0; k < 4; ++k) {
            if (s.n[k] != m.n(k)) return false;
            std::vector<int> ns(s.n[k], -1);
            std::set<int> seen;
            std::vector<int> dead_uids;
            for (int u : m.slots[k]) if (!m.alive[k][u]) dead_uids.push_back(u);
            size_t di = 0;
            for (int i = 0; i < s.n[k]; ++i) {
                if (s.del[k][i]) { if (di >= dead_uids.size()) { m = save; return false; } ns[i] = dead_uids[di++]; continue; }
                int t = k == BV ? (int)r.tv[VertexHandle(i)] : k == BE ? (int)r.te[EdgeHandle(i)] : k == BF ? (int)r.tf[FaceHandle(i)] : (int)r.tc[CellHandle(i)];
                if (t < 0 || t >= m.n_uids(k) || !m.alive[k][t] || m.slot_of[k][t] < 0 || seen.count(t)) { m = save; return false; }
                seen.insert(t);
                ns[i] = t;
            }
            if (di != dead_uids.size()) { m = save; return false; }
            m.slots[k] = ns;
            for (int i = 0; i < s.n[k]; ++i) m.slot_of[k][ns[i]] = i;
        }
        if (!structure_diff(r, s).empty()) { m = save; return false; }
        return true;
    }
    void verify_structure(R &r, const Snap &s) {
        std::string d = structure_diff(r, s);
        if (d.empty()) return;
        if (!exact_only && d.rfind("survivor-def", 0) == 0 && try_renumbering(r, s)) { st.add("renumbering_differs"); return; }
        std::string oracle = d.substr(0, d.find(':'));
        ctx.fail(ow_struct, oracle, d);
    }

    // ------------------------------------------------------------ properties: values follow uids
    void verify_props(R &r) {
        Mesh &M = *r.mesh;
        const Model &m = r.m;
        auto sz = [&](size_t have, int pk, const char *what) {
            if ((long)have != r.nslots(pk)) ctx.fail(ow_props, "size", std::string(what) + " kind " + pkind_name(pk) + " size=" + std::to_string(have) + " slots=" + std::to_string(r.nslots(pk)));
        };
        sz(r.tv.size(), KV, "tag"); sz(r.te.size(), KE, "tag"); sz(r.the.size(), KHE, "tag");
        sz(r.tf.size(), KF, "tag"); sz(r.thf.size(), KHF, "tag"); sz(r.tc.size(), KC, "tag");
        sz(M.vertex_positions().size(), KV, "position");
        auto tagbad = [&](int pk, int s, int got, int want) {
            ctx.fail(ow_props, is_half(pk) ? "half-side" : "value", std::string("uid tag kind ") + pkind_name(pk) + " slot " + std::to_string(s) + " holds " + std::to_string(got) + " expected " + std::to_string(want));
        };
        for (int s = 0; s < m.n(BV); ++s) if (m.slot_live(BV, s) && r.tv[VertexHandle(s)] != m.slots[BV][s]) tagbad(KV, s, r.tv[VertexHandle(s)], m.slots[BV][s]);
        for (int s = 0; s < m.n(BE); ++s) if (m.slot_live(BE, s)) {
            int u = m.slots[BE][s];
            if (r.te[EdgeHandle(s)] != u) tagbad(KE, s, r.te[EdgeHandle(s)], u);
            for (int d = 0; d < 2; ++d) if (r.the[HalfEdgeHandle(2 * s + d)] != 2 * u + d) tagbad(KHE, 2 * s + d, r.the[HalfEdgeHandle(2 * s + d)], 2 * u + d);
        }
        for (int s = 0; s < m.n(BF); ++s) if (m.slot_live(BF, s)) {
            int u = m.slots[BF][s];
            if (r.tf[FaceHandle(s)] != u) tagbad(KF, s, r.tf[FaceHandle(s)], u);
            for (int d = 0; d < 2; ++d) if (r.thf[HalfFaceHandle(2 * s + d)] != 2 * u + d) tagbad(KHF, 2 * s + d, r.thf[HalfFaceHandle(2 * s + d)], 2 * u + d);
        }
        for (int s = 0; s < m.n(BC); ++s) if (m.slot_live(BC, s) && r.tc[CellHandle(s)] != m.slots[BC][s]) tagbad(KC, s, r.tc[CellHandle(s)], m.slots[BC][s]);
        // positions
        for (int s = 0; s < m.n(BV); ++s) if (m.slot_live(BV, s)) {
            Vec3d want = pos_of_code(r.vpos[m.slots[BV][s]]);
            Vec3d have = M.vertex(VertexHandle(s));
            if (memcmp(&have[0], &want[0], 8) || memcmp(&have[1], &want[1], 8) || memcmp(&have[2], &want[2], 8)) ctx.fail(ow_props, "position", "vertex slot " + std::to_string(s));
        }
        // client-held properties of this replica
        int ri = -1;
        for (size_t i = 0; i < reps.size(); ++i) if (reps[i].get() == &r) ri = (int)i;
        std::set<int> done;
        for (int i = 0; i < NHELD; ++i) {
            Held &h = held[i];
            if (!h.h || h.rep != ri || done.count(h.mid)) continue;
            done.insert(h.mid);
            const MProp &mp = r.props[h.mid];
            if (!mp.attached) continue;
            sz(h.h->size(), mp.kind, "client property");
            if (mp.unspecified) continue;
            int ns = r.nslots(mp.kind);
            for (int s = 0; s < ns; ++s) {
                int key = r.key_of_slot(mp.kind, s);
                if (key < 0) continue;
                int want = mp.get(key);
                if (!h.h->equals(s, want)) {
                    bool isdef = mp.val.find(key) == mp.val.end();
                    ctx.fail(ow_props, isdef ? "default" : (is_half(mp.kind) ? "half-side" : "value"),
                             std::string("prop#") + std::to_string(mp.id) + " " + pkind_name(mp.kind) + "/" + ptype_name(mp.type) + " slot " + std::to_string(s) +
                                 " holds " + h.h->show(s) + " expected " + std::to_string(want) + (isdef ? " (default)" : ""));
                }
            }
        }
    }

    // ------------------------------------------------------------ primitive wrappers (call, adopt, contract)
    std::vector<std::string> with_bu(std::vector<std::string> o, const R &r) const {
        if (any_bu_off(r)) o.push_back("C12");
        return o;
    }
    int w_add_vertex(R &r, bool with_pos) {
        int before = r.m.n(BV);
        VertexHandle v;
        int n = INT_MIN;
        if (with_pos) { n = next_uniq(); v = r.mesh->add_vertex(Render<Vec3d>::make(n)); }
        else v = r.mesh->add_vertex();
        if (v.idx() != before) ctx.fail(ow_struct, "add-vertex-handle", "returned " + std::to_string(v.idx()));
        adopt(r);
        if (r.m.n(BV) != before + 1) ctx.fail(ow_struct, "add-vertex-count", "");
        int u = r.m.slots[BV][before];
        r.vpos[u] = n;
        return u;
    }
    int live_edge_between(const R &r, int a, int b, bool either_dir) const {
        for (int e = 0; e < r.m.n_uids(BE); ++e) if (r.m.alive[BE][e]) {
            if (r.m.E[e].from == a && r.m.E[e].to == b) return e;
            if (either_dir && r.m.E[e].from == b && r.m.E[e].to == a) return e;
        }
        return -1;
    }
    // returns edge uid
    int w_add_edge(R &r, int fu, int tu, bool allow_dup) {
        int before = r.m.n(BE);
        bool exists = live_edge_between(r, fu, tu, true) >= 0;
        EdgeHandle e = r.mesh->add_edge(r.vh(fu), r.vh(tu), allow_dup);
        adopt(r);
        std::vector<std::string> ow = with_bu({"C11"}, r);
        if (!allow_dup && exists) {
            if (r.m.n(BE) != before) ctx.fail(ow, "add_edge-dedup", "created an edge although a live one joins the vertices");
            if (!e.is_valid() || e.idx() >= before) ctx.fail(ow, "add_edge-dedup", "returned handle " + std::to_string(e.idx()));
            int u = r.m.slots[BE][e.idx()];
            const MEdge &me = r.m.E[u];
            bool joins = (me.from == fu && me.to == tu) || (me.from == tu && me.to == fu);
            if (!r.m.alive[BE][u] || !joins)
                ctx.fail(ow, "add_edge-dedup", "returned edge " + std::to_string(e.idx()) + (r.m.alive[BE][u] ? " which does not join the vertices" : " which is deleted"));
            st.add("probe_add_edge_dedup");
            return u;
        }
        if (r.m.n(BE) != before + 1 || e.idx() != before) ctx.fail(ow, "add_edge-accept", "expected exactly one new edge, handle=" + std::to_string(e.idx()) + " n_edges " + std::to_string(before) + "->" + std::to_string(r.m.n(BE)));
        int u = r.m.slots[BE][before];
        if (r.m.E[u].from != fu || r.m.E[u].to != tu) ctx.fail(ow, "add_edge-accept", "wrong endpoints");
        return u;
    }
    bool loop_closed(const R &r, const std::vector<int> &hes) const {
        if (hes.empty()) return false;
        for (size_t i = 0; i < hes.size(); ++i)
            if (r.m.he_to(hes[i]) != r.m.he_from(hes[(i + 1) % hes.size()])) return false;
        return true;
    }
    // face via halfedge refs; returns face uid or -1 (rejected)
    int w_add_face_he(R &r, const std::vector<int> &hes, bool check) {
        int before = r.m.n(BF);
        Snap s0;
        if (check) s0 = take_snap(*r.mesh);
        std::vector<HalfEdgeHandle> hh;
        for (int h : hes) hh.push_back(r.heh(h));
        FaceHandle f = r.mesh->add_face(hh, check);
        std::vector<std::string> ow = with_bu({"C11"}, r);
        if (KID == 1) ow.push_back("C15");
        if (KID == 2) ow.push_back("C16");
        bool valence_ok = KID == 0 || (KID == 1 && hes.size() == 3) || (KID == 2 && hes.size() == 4);
        bool expect_accept = valence_ok && (!check || loop_closed(r, hes));
        adopt(r);
        if (!expect_accept) {
            if (check && valence_ok) ow.push_back("C08");   // "faces accepted with topology check are closed loops"
            if (f.is_valid() || r.m.n(BF) != before) ctx.fail(ow, "add_face-accepted-invalid", "halfedges " + vec_str(hes));
            return -1;
        }
        if (!f.is_valid() || f.idx() != before || r.m.n(BF) != before + 1) ctx.fail(ow, "add_face-rejected-valid", "halfedges " + vec_str(hes) + " returned " + std::to_string(f.idx()));
        int u = r.m.slots[BF][before];
        if (r.m.F[u] != hes) ctx.fail(ow, "add_face-definition", "stored " + vec_str(r.m.F[u]) + " given " + vec_str(hes));
        return u;
    }
    // face via vertex uids
    int w_add_face_v(R &r, const std::vector<int> &vs) {
        int beforeF = r.m.n(BF), beforeE = r.m.n(BE);
        int missing = 0;
        for (size_t i = 0; i < vs.size(); ++i) if (live_edge_between(r, vs[i], vs[(i + 1) % vs.size()], true) < 0) ++missing;
        std::vector<VertexHandle> vv;
        for (int v : vs) vv.push_back(r.vh(v));
        FaceHandle f = r.mesh->add_face(vv);
        adopt(r);
        std::vector<std::string> ow = with_bu({"C11", "C08"}, r);
        if (KID == 1) ow.push_back("C15");
        if (KID == 2) ow.push_back("C16");
        bool valence_ok = KID == 0 || (KID == 1 && vs.size() == 3) || (KID == 2 && vs.size() == 4);
        if (!valence_ok) {
            if (f.is_valid() || r.m.n(BF) != beforeF) ctx.fail(ow, "add_face-accepted-invalid", "wrong valence " + std::to_string(vs.size()));
            return -1;
        }
        if (!f.is_valid() || f.idx() != beforeF || r.m.n(BF) != beforeF + 1) ctx.fail(ow, "add_face-rejected-valid", "vertices " + vec_str(vs));
        if (r.m.n(BE) != beforeE + missing) ctx.fail(ow, "add_face-edges", "expected " + std::to_string(missing) + " new edges, got " + std::to_string(r.m.n(BE) - beforeE));
        int u = r.m.slots[BF][beforeF];
        const std::vector<int> &hes = r.m.F[u];
        if (hes.size() != vs.size()) ctx.fail(ow, "add_face-definition", "valence");
        for (size_t i = 0; i < vs.size(); ++i) {
            int h = hes[i];
            if (!r.m.alive[BE][h / 2] || r.m.he_from(h) != vs[i] || r.m.he_to(h) != vs[(i + 1) % vs.size()])
                ctx.fail(ow, "add_face-definition", "halfedge " + std::to_string(i) + " of the new face does not join the given vertices (closed loop violated)");
        }
        return u;
    }
    // acceptance predicate of add_cell with topology check, straight from the statement
    bool surface_closed(const R &r, const std::vector<int> &hfs) const {
        std::map<int, int> cnt;
        for (int hf : hfs) for (int h : r.m.hf_hes(hf)) cnt[h]++;
        for (auto &kv : cnt) { if (kv.second != 1) return false; if (!cnt.count(kv.first ^ 1)) return false; }
        return !hfs.empty();
    }
    int w_add_cell(R &r, const std::vector<int> &hfs, bool check, bool expect_known = true, bool expect_accept_in = true) {
        int before = r.m.n(BC);
        std::vector<HalfFaceHandle> hh;
        for (int h : hfs) hh.push_back(r.hfh(h));
        CellHandle c = r.mesh->add_cell(hh, check);
        adopt(r);
        std::vector<std::string> ow = with_bu({"C11"}, r);
        if (KID == 1) ow.push_back("C15");
        if (KID == 2) ow.push_back("C16");
        bool expect_accept = expect_known ? expect_accept_in : c.is_valid();
        if (!expect_accept) {
            if (c.is_valid() || r.m.n(BC) != before) ctx.fail(ow, "add_cell-accepted-invalid", "halffaces " + vec_str(hfs));
            return -1;
        }
        if (!c.is_valid() || c.idx() != before || r.m.n(BC) != before + 1) ctx.fail(ow, "add_cell-rejected-valid", "halffaces " + vec_str(hfs) + " returned " + std::to_string(c.idx()));
        int u = r.m.slots[BC][before];
        if (KID == 2 && check) {
            std::vector<int> a = r.m.C[u], b = hfs;
            std::sort(a.begin(), a.end()); std::sort(b.begin(), b.end());
            if (a != b) ctx.fail(ow, "add_cell-definition", "stored set differs");
        } else if (r.m.C[u] != hfs) ctx.fail(ow, "add_cell-definition", "stored " + vec_str(r.m.C[u]) + " given " + vec_str(hfs));
        return u;
    }

    // find (or create through add_face(vertices)) a halfface with exactly this vertex cycle whose side is free
    int obtain_halfface(R &r, const std::vector<int> &cyc) {
        const Model &m = r.m;
        for (int f = 0; f < m.n_uids(BF); ++f) {
            if (!m.alive[BF][f] || m.F[f].size() != cyc.size()) continue;
            for (int side = 0; side < 2; ++side)
                if (cyc_equal(m.hf_vertices(2 * f + side), cyc) && !r.hf_used(2 * f + side)) return 2 * f + side;
        }
        int f = w_add_face_v(r, cyc);
        if (f < 0) return -1;
        // add_face(vertices) stores the cycle as side 0 starting at cyc[0]
        return 2 * f;
    }

    // ------------------------------------------------------------ selection helpers (rank among live, by uid)
    static int pick(const std::vector<int> &v, int a) { return v[(size_t)((unsigned)a % v.size())]; }
    int pick_biased(const std::vector<int> &v, int a, int bias) {
        switch (bias & 3) { case 0: return v.front(); case 1: return v.back(); case 2: return v[v.size() / 2]; default: return pick(v, a); }
    }
    std::vector<int> distinct_vertices(R &r, int a, int need) {
        std::vector<int> live = r.m.live_uids(BV), out;
        if ((int)live.size() < need) return out;
        unsigned x = (unsigned)a;
        while ((int)out.size() < need) {
            int v = live[x % live.size()];
            x = x * 1103515245u + 12345u;
            if (std::find(out.begin(), out.end(), v) == out.end()) out.push_back(v);
            else { // linear probe
                for (size_t i = 0; i < live.size(); ++i) { int w = live[(x + i) % live.size()]; if (std::find(out.begin(), out.end(), w) == out.end()) { out.push_back(w); break; } }
            }
        }
        return out;
    }
    std::vector<int> free_halffaces(const R &r, size_t valence) const {
        std::vector<int> out;
        for (int f = 0; f < r.m.n_uids(BF); ++f) if (r.m.alive[BF][f] && r.m.F[f].size() == valence) {
            bool u0 = r.hf_used(2 * f), u1 = r.hf_used(2 * f + 1);
            if (!u0) out.push_back(2 * f);
            if (!u1) out.push_back(2 * f + 1);
        }
        return out;
    }

    // ------------------------------------------------------------ ops
    // a cell that contains both halffaces of one face ("pillow"): the smallest closed surface; C09 names it explicitly
    void op_add_pillow(R &r, const Op &q) {
        if (KID != 0) return;
        std::vector<int> cand;
        for (int f : r.m.live_uids(BF)) if (!r.face_has_cell(f) && loop_closed(r, r.m.F[f])) cand.push_back(f);
        int f = -1;
        if (!cand.empty() && (q.a[1] & 1)) f = pick(cand, q.a[0]);
        else {
            int need = 3 + q.a[2] % 2;
            if (r.m.n(BV) + need > (int)plan.c("maxv", 24) + 8) return;
            std::vector<int> cyc;
            for (int i = 0; i < need; ++i) cyc.push_back(w_add_vertex(r, true));
            f = w_add_face_v(r, cyc);
            if (f < 0) return;
        }
        std::vector<int> hfs = (q.a[3] & 1) ? std::vector<int>{2 * f, 2 * f + 1} : std::vector<int>{2 * f + 1, 2 * f};
        bool check = (q.a[3] & 2) != 0;
        w_add_cell(r, hfs, check, true, !check || surface_closed(r, hfs));
        st.add("probe_pillow_cell");
    }
    // n tetrahedra around one axis edge (closed ring or open fan): edges and vertices of high valence, incl. sizes around 32 where
    // small-buffer / threshold logic in a container or iterator would switch paths
    void op_add_fan(R &r, const Op &q) {
        if (KID == 2) return;
        static const int sizes[] = {3, 4, 5, 6, 8, 12, 16, 31, 32, 33, 34, 40};
        int n = sizes[(unsigned)q.a[0] % 12];
        if (n > 8 && !plan.c("fan_big", 0)) n = 3 + (unsigned)q.a[0] % 6;
        bool closed = q.a[1] & 1;
        int a = w_add_vertex(r, true), b = w_add_vertex(r, true);
        std::vector<int> ring;
        for (int i = 0; i < n + (closed ? 0 : 1); ++i) ring.push_back(w_add_vertex(r, true));
        for (int i = 0; i < n; ++i) {
            int p = ring[(size_t)i], qn = ring[(size_t)((i + 1) % (int)ring.size())];
            // tet (a, b, p, qn) through its four halffaces
            std::vector<std::vector<int>> cyc = {{a, b, p}, {a, qn, b}, {a, p, qn}, {b, qn, p}};
            std::vector<int> hfs;
            for (auto &c : cyc) { int hf = obtain_halfface(r, c); if (hf < 0) return; hfs.push_back(hf); }
            if (KID == 1 && (q.a[2] & 1) && !any_bu_off(r)) op_add_cell_vertices(r, {a, b, p, qn}, false);
            else w_add_cell(r, hfs, (q.a[3] & 1) != 0, true, true);
        }
        st.add(n >= 31 ? "probe_fan_valence_ge31" : "probe_fan_small");
        if (closed) st.add("probe_fan_closed");
    }
    void op_add_poly(R &r, const Op &q, int t) {
        const PolyTemplate &T = poly_template(t);
        if (KID == 1 && t != 0) return;
        if (KID == 2 && t != 1) return;
        int maxv = (int)plan.c("maxv", 24);
        std::vector<int> vs(T.nv, -1);
        bool via_vertices = (q.a[3] & 2) && KID != 0 && !any_bu_off(r);
        // glue: map template face 0 onto a free halfface (used as is), the rest fresh or existing vertices
        std::vector<int> fr = free_halffaces(r, T.faces[0].size());
        bool glue = !fr.empty() && (q.a[1] % 4) != 0;
        // hexes on an integer lattice: blocks of arbitrary shape with shared faces, interior edges and sheets
        bool lattice = t == 1 && (KID == 2 || (q.a[1] % 3) == 0);
        std::array<int, 3> lc = {0, 0, 0};
        if (lattice) {
            glue = false;
            std::vector<std::array<int, 3>> occ;
            for (auto &kv : r.lat_c) if (r.m.is_live(BC, kv.second)) occ.push_back(kv.first);
            if (!occ.empty()) {
                static const int D[6][3] = {{1, 0, 0}, {-1, 0, 0}, {0, 1, 0}, {0, -1, 0}, {0, 0, 1}, {0, 0, -1}};
                bool found = false;
                for (int tries = 0; tries < 12 && !found; ++tries) {
                    auto base = occ[(size_t)((unsigned)(q.a[0] + tries) % occ.size())];
                    const int *d = D[(unsigned)(q.a[1] / 3 + tries) % 6];
                    lc = {base[0] + d[0], base[1] + d[1], base[2] + d[2]};
                    bool inside = true; for (int x : lc) if (x < 0 || x > 2) inside = false;
                    auto it = r.lat_c.find(lc);
                    if (inside && (it == r.lat_c.end() || !r.m.is_live(BC, it->second))) found = true;
                }
                if (!found) return;
            } else lc = {1, 1, 1};
            static const int C8[8][3] = {{0, 0, 0}, {1, 0, 0}, {1, 1, 0}, {0, 1, 0}, {0, 0, 1}, {1, 0, 1}, {1, 1, 1}, {0, 1, 1}};
            for (int i = 0; i < 8; ++i) {
                std::array<int, 3> vc = {lc[0] + C8[i][0], lc[1] + C8[i][1], lc[2] + C8[i][2]};
                auto it = r.lat_v.find(vc);
                if (it != r.lat_v.end() && r.m.is_live(BV, it->second)) vs[i] = it->second;
                else { vs[i] = w_add_vertex(r, true); r.lat_v[vc] = vs[i]; }
            }
            st.add("probe_lattice_hex");
        }
        if (glue) {
            int hf = pick(fr, q.a[1] / 4);
            std::vector<int> cyc = r.m.hf_vertices(hf);
            std::set<int> ds(cyc.begin(), cyc.end());
            if (ds.size() != cyc.size()) glue = false;  // degenerate face: do not build on it
            else {
                int rot = (q.a[2] / 2) % (int)cyc.size();
                // the hex kernel's vertex entry point uses the front face against the template's cycle
                if (via_vertices && KID == 2) for (size_t i = 0; i < cyc.size(); ++i) vs[T.faces[0][cyc.size() - 1 - i]] = cyc[(i + rot) % cyc.size()];
                else for (size_t i = 0; i < cyc.size(); ++i) vs[T.faces[0][i]] = cyc[(i + rot) % cyc.size()];
                st.add("probe_glued_cell");
            }
        }
        int need = 0;
        for (int v : vs) need += v < 0;
        bool fresh = (q.a[2] & 1) == 0 || r.m.n_logical(BV) < need + 4;
        if (fresh && r.m.n(BV) + need > maxv) fresh = false;
        if (!fresh) {
            std::vector<int> live = r.m.live_uids(BV), cand;
            for (int v : live) if (std::find(vs.begin(), vs.end(), v) == vs.end()) cand.push_back(v);
            if ((int)cand.size() < need) { if (r.m.n(BV) + need > maxv) return; fresh = true; }
            else {
                unsigned x = (unsigned)q.a[0];
                for (int &v : vs) if (v < 0) {
                    size_t i = x % cand.size();
                    v = cand[i];
                    cand.erase(cand.begin() + i);
                    x = x * 1103515245u + 12345u;
                }
            }
        }
        if (fresh) for (int &v : vs) if (v < 0) v = w_add_vertex(r, true);
        bool check = q.a[3] & 1;
        int cells_before = r.m.n_uids(BC);
        struct LatNote { HistRun *self; R &r; bool lattice; std::array<int, 3> lc; int before; ~LatNote() { if (lattice && r.m.n_uids(BC) == before + 1) r.lat_c[lc] = before; } } note{this, r, lattice, lc, cells_before};
        if (via_vertices) { op_add_cell_vertices(r, vs, check); return; }
        std::vector<int> hfs;
        for (auto &fc : T.faces) {
            std::vector<int> cyc;
            for (int i : fc) cyc.push_back(vs[i]);
            int hf = obtain_halfface(r, cyc);
            if (hf < 0) return;
            hfs.push_back(hf);
        }
        // hex kernel demands the XF,XB,YF,YB,ZF,ZB order even without check: template order is (bottom, top, 4 sides) = valid axis pairs
        if (KID == 2) hfs = {hfs[0], hfs[1], hfs[2], hfs[4], hfs[3], hfs[5]};
        if (KID != 2 && (q.a[3] & 4)) { // permute the list (order is free for poly/tet)
            unsigned x = (unsigned)q.a[0];
            for (size_t i = hfs.size(); i > 1; --i) { std::swap(hfs[i - 1], hfs[x % i]); x = x * 1103515245u + 12345u; }
        }
        // duplicate edges (or a relabelled edge) can make vertex-identical faces use different edges: then the
        // halffaces do not close up; without check that is outside the valid-argument space, with check it must be refused
        bool closed = surface_closed(r, hfs);
        if (!closed) { st.add("probe_template_not_closed"); if (!check) return; w_add_cell(r, hfs, true, true, false); return; }
        if (KID == 2 && check && (q.a[3] & 4)) {  // permuted but valid list: the checked hex add_cell reorders it or rejects it
            unsigned x = (unsigned)q.a[0];
            for (size_t i = hfs.size(); i > 1; --i) { std::swap(hfs[i - 1], hfs[x % i]); x = x * 1103515245u + 12345u; }
            st.add("probe_hex_permuted_list");
            w_add_cell(r, hfs, check, false);
            return;
        }
        w_add_cell(r, hfs, check, true, true);
    }
    void op_add_cell_vertices(R &r, const std::vector<int> &vs, bool check);  // tet / hex kernels (kernel_ops.hh)

    void op_add_face_he(R &r, const Op &q) {
        // closed walk of requested length through live halfedges, starting at a chosen vertex
        std::vector<int> live = r.m.live_uids(BV);
        if (live.empty()) return;
        int start = pick(live, q.a[0]);
        int len = 1 + q.a[2] % 5;
        if (KID == 1) len = 3;
        if (KID == 2) len = 4;
        std::vector<std::vector<int>> outs(r.m.n_uids(BV));
        for (int e = 0; e < r.m.n_uids(BE); ++e) if (r.m.alive[BE][e]) { outs[r.m.E[e].from].push_back(2 * e); outs[r.m.E[e].to].push_back(2 * e + 1); }
        std::vector<std::vector<int>> found;
        std::vector<int> path;
        long budget = 20000;   // hub vertices of the width-boundary meshes have hundreds of outgoing halfedges: bound the search, deterministically
        std::function<void(int)> dfs = [&](int v) {
            if (found.size() >= 24 || --budget < 0) return;
            if ((int)path.size() == len) { if (v == start) found.push_back(path); return; }
            for (int h : outs[v]) {
                if (std::find(path.begin(), path.end(), h) != path.end()) continue;
                path.push_back(h); dfs(r.m.he_to(h)); path.pop_back();
            }
        };
        dfs(start);
        if (found.empty()) return;
        std::vector<int> hes = pick_vec(found, q.a[1]);
        if (len <= 2) st.add("probe_degenerate_face");
        w_add_face_he(r, hes, q.a[3] & 1);
    }
    template <class T> static const T &pick_vec(const std::vector<T> &v, int a) { return v[(size_t)((unsigned)a % v.size())]; }

    void op_add_face_v(R &r, const Op &q) {
        int val = 3 + q.a[1] % 3;
        if (KID == 1) val = 3;
        if (KID == 2) val = 4;
        std::vector<int> vs = distinct_vertices(r, q.a[0], val);
        if (vs.empty()) return;
        w_add_face_v(r, vs);
    }
    void op_add_edge(R &r, const Op &q) {
        std::vector<int> live = r.m.live_uids(BV);
        if (live.empty()) return;
        int a = pick(live, q.a[0]), b = pick(live, q.a[1]);
        if (a == b && (q.a[3] % 8) != 0 && live.size() > 1) b = pick(live, q.a[1] + 1) == a ? pick(live, q.a[1] + 2) : pick(live, q.a[1] + 1);
        if (a == b && live.size() > 1 && (q.a[3] % 8) != 0) return;
        if (a == b) st.add("probe_loop_edge");
        bool dup = (q.a[2] % 4) == 0;
        if (dup && live_edge_between(r, a, b, true) >= 0) st.add("probe_duplicate_edge");
        w_add_edge(r, a, b, dup);
    }
    void op_delete(R &r, const Op &q, int k) {
        std::vector<int> live = r.m.live_uids(k);
        if (live.empty()) return;
        // position bias is over slots: first / last / middle / uniform
        std::vector<int> ls = r.m.live_slots(k);
        int slot = pick_biased(ls, q.a[0], q.a[1]);
        int uid = r.m.slots[k][slot];
        if (r.m.n_deleted(k) > 0) st.add("probe_delete_with_tombstones");
        switch (k) {
        case BV: r.mesh->delete_vertex(VertexHandle(slot)); break;
        case BE: r.mesh->delete_edge(EdgeHandle(slot)); break;
        case BF: r.mesh->delete_face(FaceHandle(slot)); break;
        default: r.mesh->delete_cell(CellHandle(slot)); break;
        }
        Model::Closure cl = r.m.delete_entity(k, uid);
        if (cl.c.size() + cl.f.size() + cl.e.size() > 1) st.add("probe_delete_closure_gt1");
        st.add(r.m.deferred ? "probe_delete_deferred" : (r.m.fast ? "probe_delete_fast" : "probe_delete_shift"));
    }
    void op_swap(R &r, const Op &q, int k) {
        int n = r.m.n(k);
        if (n < 1) return;
        int a = (unsigned)q.a[0] % n, b = (unsigned)q.a[1] % n;
        switch (q.a[2] % 6) {
        case 0: b = a; break;
        case 1: b = (a + 1) % n; break;
        case 2: {  // share a neighbour: two entities referenced by one common super-entity
            std::vector<std::pair<int, int>> pairs;
            if (k == BV) for (int e = 0; e < r.m.n_uids(BE); ++e) { if (r.m.alive[BE][e] && r.m.E[e].from != r.m.E[e].to) pairs.push_back({r.m.E[e].from, r.m.E[e].to}); }
            if (k == BE) for (int f = 0; f < r.m.n_uids(BF); ++f) { if (r.m.alive[BF][f] && r.m.F[f].size() > 1) pairs.push_back({r.m.F[f][0] / 2, r.m.F[f][1] / 2}); }
            if (k == BF) for (int c = 0; c < r.m.n_uids(BC); ++c) { if (r.m.alive[BC][c] && r.m.C[c].size() > 1) pairs.push_back({r.m.C[c][0] / 2, r.m.C[c].back() / 2}); }
            if (k == BC) for (int f = 0; f < r.m.n_uids(BF); ++f) { if (r.m.alive[BF][f]) { int c0 = r.cell_of_hf(2 * f), c1 = r.cell_of_hf(2 * f + 1); if (c0 >= 0 && c1 >= 0 && c0 != c1) pairs.push_back({c0, c1}); } }
            if (!pairs.empty()) { auto p = pick_vec(pairs, q.a[3]); a = r.m.slot_of[k][p.first]; b = r.m.slot_of[k][p.second]; st.add("probe_swap_shared_neighbour"); }
            break;
        }
        case 3: {  // one deleted
            for (int s = 0; s < n; ++s) if (!r.m.slot_live(k, (s + b) % n)) { b = (s + b) % n; st.add("probe_swap_with_deleted"); break; }
            break;
        }
        default: break;
        }
        if (a < 0 || b < 0) return;
        switch (k) {
        case BV: r.mesh->swap_vertex_indices(VertexHandle(a), VertexHandle(b)); break;
        case BE: r.mesh->swap_edge_indices(EdgeHandle(a), EdgeHandle(b)); break;
        case BF: r.mesh->swap_face_indices(FaceHandle(a), FaceHandle(b)); break;
        default: r.mesh->swap_cell_indices(CellHandle(a), CellHandle(b)); break;
        }
        r.m.swap_slots(k, a, b);
        swap_a = a; swap_b = b; swap_k = k;
    }
    int swap_a = -1, swap_b = -1, swap_k = -1;

    void op_gc(R &r, const Op &q);          // gc_ops.hh (collect_garbage + StatusAttrib variants)
    void op_mode(R &r, const Op &q) {
        int d = q.a[0] % 3, f = q.a[1] % 3;
        if (d != 2) {
            bool on = d == 1;
            if (r.m.deferred && !on && r.m.needs_gc()) st.add("probe_leave_deferred_collects");
            r.mesh->enable_deferred_deletion(on);
            r.m.set_deferred(on);
        }
        if (f != 2) { r.mesh->enable_fast_deletion(f == 1); r.m.fast = f == 1; }
    }
    void op_bu(R &r, const Op &q) {
        int kind = q.a[0] % 4;
        bool on = q.a[1] & 1;
        bool was[3] = {r.m.bu[0], r.m.bu[1], r.m.bu[2]};
        switch (kind) {
        case 0: r.mesh->enable_vertex_bottom_up_incidences(on); r.m.bu[0] = on; break;
        case 1: r.mesh->enable_edge_bottom_up_incidences(on); r.m.bu[1] = on; break;
        case 2: r.mesh->enable_face_bottom_up_incidences(on); r.m.bu[2] = on; break;
        default: r.mesh->enable_bottom_up_incidences(on); r.m.bu[0] = r.m.bu[1] = r.m.bu[2] = on; break;
        }
        for (int i = 0; i < 3; ++i) if (!was[i] && r.m.bu[i]) { r.ever_reenabled = true; st.add("probe_bu_reenabled"); }
        for (int i = 0; i < 3; ++i) if (was[i] && !r.m.bu[i]) st.add("probe_bu_disabled");
    }
    void op_clear(R &r, const Op &q);
    void op_set(R &r, const Op &q, int k);
    // property client ops (registry model lives in registry.hh)
    void op_prop(R &r, const Op &q);
    void op_fork(const Op &q);
    void op_collapse(R &r, const Op &q);
    void resync(R &r, int ri);
    bool resynced = false;
    bool keep_alive = false;
    void op_restart(R &r, const Op &q);
    void op_roundtrip(R &r, const Op &q);
    void op_fault_load(R &r, const Op &q);
    void op_sweep(R &r, const Op &q);
    void op_set_pos(R &r, const Op &q);
    void op_big(R &r, const Op &q);
    void op_big_valence(R &r, const Op &q);
    bool post_op_light = false;
    void op_open_cell(R &r, const Op &q);
    void io_refresh(R &r, int seed, bool ascii);
    template <class Dst> std::string compare_loaded(const Dst &d, R &r, bool ascii, bool cells_as_sets);
    std::string compare_decoded(const struct IFile &f, R &r);
    int expected_topo_type(const R &r) const;
    template <class Dst> void fault_load_into(const std::string &image, bool ascii, int variant, const std::string &what, long alloc_fail_at);
    std::string last_image, fault_what;
    int ops_on_huge = 0;
    void op_bad(R &r, const Op &q);

    void set_owners(const std::string &k, const R &r) {
        ow_struct.clear(); ow_props = {"C03"};
        auto has = [&](const char *p) { return k.rfind(p, 0) == 0; };
        if (has("ADD_") || has("BAD_")) { ow_struct = {"C11"}; if (KID == 1) ow_struct.push_back("C15"); if (KID == 2) ow_struct.push_back("C16"); }
        else if (has("DEL_")) ow_struct = {"C02"};
        else if (has("SWAP_")) { ow_struct = {"C17"}; ow_props.push_back("C17"); }
        else if (k == "GC") { ow_struct = {"C04"}; ow_props.push_back("C04"); }
        else if (k == "MODE") { ow_struct = {"C04", "C02"}; ow_props.push_back("C04"); }
        else if (k == "CLEAR") ow_struct = {"C02"};
        else if (k == "BU") ow_struct = {"C12"};
        else if (has("SET_")) ow_struct = {"C01"};
        else if (has("P_")) ow_struct = {"C14"};
        else if (k == "P_POS_PERSIST") { ow_struct = {"C13", "C14"}; }
        else if (has("FORK") || k == "DESTROY" || k == "USE") { ow_struct = {"C13"}; ow_props.push_back("C13"); }
        else if (k == "COLLAPSE") ow_struct = {"C15"};
        else if (k == "RESTART" || k == "ROUNDTRIP" || k == "BIG" || k == "BIG_VALENCE" || k == "SET_POS" || k == "OPEN_CELL") ow_struct = {"C06"};
        else if (k == "FAULT_LOAD") ow_struct = {"C07"};
        else if (k == "SWEEP") ow_struct = {"C18"};
        else if (k == "RESERVE") ow_struct = {"C03", "C02"};
        else ow_struct = {"C02"};
        if (any_bu_off(r)) { ow_struct.push_back("C12"); ow_props.push_back("C12"); }
    }

    void exec_op(const Op &q) {
        R &r = rep();
        const std::string &k = q.kind;
        set_owners(k, r);
        bool bu_off_before = any_bu_off(r);
        if (k == "ADD_V") { if (r.m.n(BV) < plan.c("maxv", 24)) { if (q.a[0] % 4 == 0) { int n = 1 + q.a[1] % 3; r.mesh->add_n_vertices(n); adopt(r); } else w_add_vertex(r, true); } }
        else if (k == "ADD_E") op_add_edge(r, q);
        else if (k == "ADD_F_V") op_add_face_v(r, q);
        else if (k == "ADD_F_HE") op_add_face_he(r, q);
        else if (k == "ADD_TET") op_add_poly(r, q, 0);
        else if (k == "ADD_HEX") op_add_poly(r, q, 1);
        else if (k == "ADD_PRISM") op_add_poly(r, q, 2);
        else if (k == "ADD_PYR") op_add_poly(r, q, 3);
        else if (k == "ADD_PILLOW") op_add_pillow(r, q);
        else if (k == "ADD_FAN") op_add_fan(r, q);
        else if (k == "BAD_FACE" || k == "BAD_CELL") op_bad(r, q);
        else if (k == "DEL_V") op_delete(r, q, BV);
        else if (k == "DEL_E") op_delete(r, q, BE);
        else if (k == "DEL_F") op_delete(r, q, BF);
        else if (k == "DEL_C") op_delete(r, q, BC);
        else if (k == "SWAP_V") op_swap(r, q, BV);
        else if (k == "SWAP_E") op_swap(r, q, BE);
        else if (k == "SWAP_F") op_swap(r, q, BF);
        else if (k == "SWAP_C") op_swap(r, q, BC);
        else if (k == "GC") op_gc(r, q);
        else if (k == "MODE") op_mode(r, q);
        else if (k == "BU") op_bu(r, q);
        else if (k == "CLEAR") op_clear(r, q);
        else if (k == "SET_E") op_set(r, q, BE);
        else if (k == "SET_F") op_set(r, q, BF);
        else if (k == "SET_C") op_set(r, q, BC);
        else if (k.rfind("P_", 0) == 0) op_prop(r, q);
        else if (k.rfind("FORK", 0) == 0 || k == "DESTROY" || k == "USE") { op_fork(q); }
        else if (k == "COLLAPSE") op_collapse(r, q);
        else if (k == "RESTART") op_restart(r, q);
        else if (k == "ROUNDTRIP") op_roundtrip(r, q);
        else if (k == "FAULT_LOAD") op_fault_load(r, q);
        else if (k == "SWEEP") op_sweep(r, q);
        else if (k == "SET_POS") op_set_pos(r, q);
        else if (k == "BIG") op_big(r, q);
        else if (k == "BIG_VALENCE") op_big_valence(r, q);
        else if (k == "OPEN_CELL") op_open_cell(r, q);
        else if (k == "OBSERVE") {}
        else if (k == "RESERVE") {   // growth of the containers without new entities: nothing observable may change (C03: one element per entity slot)
            size_t n = (size_t)(q.a[1] % 3 == 0 ? q.a[2] % 4 : r.m.n(q.a[0] % 4) + q.a[2] % 70);
            switch (q.a[0] % 4) { case 0: r.mesh->reserve_vertices(n); break; case 1: r.mesh->reserve_edges(n); break; case 2: r.mesh->reserve_faces(n); break; default: r.mesh->reserve_cells(n); }
            st.add("probe_reserve");
        }
        else throw Inconclusive{"unknown op " + k};
        if (bu_off_before || any_bu_off(rep())) { if (std::find(ow_struct.begin(), ow_struct.end(), "C12") == ow_struct.end()) { ow_struct.push_back("C12"); ow_props.push_back("C12"); } }
    }

    void post_op(const Op &q, int idx);   // verify + batteries
    void verify_registry(R &r, int ri, bool deep);
    void run_batteries(R &r, const Snap &s, uint64_t d, int idx);
    void note_nontrivial(R &r, uint64_t d);
    RunResult run();
};

}  // namespace sim
