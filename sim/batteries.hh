// Batteries: oracles that are evaluated on the SUT alone (no model): brute-force scans over the mesh's
// own top-down arrays compared with what its query API answers.
#pragma once
#include "hist.hh"

namespace sim {

template <class It> std::vector<int> drain(It it) {
    std::vector<int> v;
    int guard = 0;
    for (; it.valid(); ++it) { v.push_back(it->idx()); if (++guard > 100000) break; }
    return v;
}
inline std::vector<int> sorted(std::vector<int> v) { std::sort(v.begin(), v.end()); return v; }
inline std::vector<int> uniq(std::vector<int> v) { std::sort(v.begin(), v.end()); v.erase(std::unique(v.begin(), v.end()), v.end()); return v; }

// Brute-force inverse of the stored definitions (live entities only)
struct Brute {
    int nv = 0, ne = 0, nf = 0, nc = 0;
    std::vector<char> vlive, elive, flive, clive;
    std::vector<std::pair<int, int>> E;
    std::vector<std::vector<int>> F, C;
    std::vector<std::vector<int>> out;      // vertex -> outgoing halfedges (multiset)
    std::vector<std::vector<int>> hfs;      // halfedge -> halffaces containing it (multiset)
    std::vector<int> cellof;                // halfface -> live cell listing it, -1
    std::vector<int> cellcount;             // number of live cells listing it
    std::vector<int> hf_hes(int hf) const {
        const std::vector<int> &h = F[hf / 2];
        if (!(hf & 1)) return h;
        std::vector<int> o(h.rbegin(), h.rend());
        for (int &x : o) x ^= 1;
        return o;
    }
    int from(int he) const { return (he & 1) ? E[he / 2].second : E[he / 2].first; }
    int to(int he) const { return (he & 1) ? E[he / 2].first : E[he / 2].second; }
};
template <class M> Brute brute_of(const M &m) {
    Brute b;
    b.nv = (int)m.n_vertices(); b.ne = (int)m.n_edges(); b.nf = (int)m.n_faces(); b.nc = (int)m.n_cells();
    b.vlive.resize(b.nv); b.elive.resize(b.ne); b.flive.resize(b.nf); b.clive.resize(b.nc);
    for (int i = 0; i < b.nv; ++i) b.vlive[i] = !m.is_deleted(VertexHandle(i));
    b.out.resize(b.nv); b.hfs.resize(2 * b.ne); b.cellof.assign(2 * b.nf, -1); b.cellcount.assign(2 * b.nf, 0);
    for (int i = 0; i < b.ne; ++i) {
        b.elive[i] = !m.is_deleted(EdgeHandle(i));
        const auto &e = m.edge(EdgeHandle(i));
        b.E.push_back({e.from_vertex().idx(), e.to_vertex().idx()});
        if (b.elive[i]) { b.out[b.E[i].first].push_back(2 * i); b.out[b.E[i].second].push_back(2 * i + 1); }
    }
    for (int i = 0; i < b.nf; ++i) {
        b.flive[i] = !m.is_deleted(FaceHandle(i));
        std::vector<int> h;
        for (auto x : m.face(FaceHandle(i)).halfedges()) h.push_back(x.idx());
        b.F.push_back(h);
        if (b.flive[i]) for (int x : h) { b.hfs[x].push_back(2 * i); b.hfs[x ^ 1].push_back(2 * i + 1); }
    }
    for (int i = 0; i < b.nc; ++i) {
        b.clive[i] = !m.is_deleted(CellHandle(i));
        std::vector<int> h;
        for (auto x : m.cell(CellHandle(i)).halffaces()) h.push_back(x.idx());
        b.C.push_back(h);
        if (b.clive[i]) for (int x : h) { if (b.cellof[x] < 0) b.cellof[x] = i; b.cellcount[x]++; }
    }
    return b;
}

// ------------------------------------------------------------------ C01
template <class M> void battery_c01(const M &m, const Ctx &ctx, RunStats &st, uint64_t digest) {
    const std::vector<std::string> OW = {"C01", "C12"};
    Brute b = brute_of(m);
    const bool vb = m.has_vertex_bottom_up_incidences(), eb = m.has_edge_bottom_up_incidences(), fb = m.has_face_bottom_up_incidences();
    for (int hf = 0; hf < 2 * b.nf; ++hf) if (b.cellcount[hf] > 1) throw Inconclusive{"precondition: halfface used by two live cells"};
    auto bad = [&](const char *oracle, const std::string &what, const std::vector<int> &got, const std::vector<int> &want) {
        ctx.fail(OW, oracle, what + " got " + vec_str(got) + " brute-force " + vec_str(want));
    };
    auto same = [&](const char *oracle, const std::string &what, std::vector<int> got, std::vector<int> want) {
        std::sort(got.begin(), got.end()); std::sort(want.begin(), want.end());
        if (got != want) bad(oracle, what, got, want);
    };
    long evaluated = 0;
    auto isb_hf = [&](int hf) { return b.cellof[hf] < 0; };
    auto isb_f = [&](int f) { return isb_hf(2 * f) || isb_hf(2 * f + 1); };
    auto isb_he = [&](int he) { for (int hf : b.hfs[he]) if (isb_f(hf / 2)) return true; return false; };
    auto isb_v = [&](int v) { for (int he : b.out[v]) if (isb_he(he)) return true; return false; };
    auto isb_c = [&](int c) { for (int hf : b.C[c]) if (isb_f(hf / 2)) return true; return false; };
    if (vb) {
        for (int v = 0; v < b.nv; ++v) if (b.vlive[v]) {
            VertexHandle vh(v);
            std::string w = "vertex " + std::to_string(v);
            same("out-halfedges", "outgoing_halfedges " + w, drain(m.voh_iter(vh)), b.out[v]);
            std::vector<int> inc; for (int h : b.out[v]) inc.push_back(h ^ 1);
            same("out-halfedges", "incoming_halfedges " + w, drain(m.vih_iter(vh)), inc);
            if (m.valence(vh) != b.out[v].size()) ctx.fail(OW, "derived-valence", w);
            std::vector<int> vv, ve; for (int h : b.out[v]) { vv.push_back(b.to(h)); ve.push_back(h / 2); }
            same("derived-vertex_vertices", w, drain(m.vv_iter(vh)), vv);
            same("derived-vertex_edges", w, drain(m.ve_iter(vh)), ve);
            ++evaluated;
            if (eb) {
                std::vector<int> vhf, vf;
                for (int h : b.out[v]) for (int hf : b.hfs[h]) { vhf.push_back(hf); vhf.push_back(hf ^ 1); vf.push_back(hf / 2); }
                same("derived-vertex_halffaces", w, drain(m.vhf_iter(vh)), uniq(vhf));
                if (fb) {
                    same("derived-vertex_faces", w, drain(m.vf_iter(vh)), uniq(vf));
                    std::vector<int> vc;
                    for (int h : b.out[v]) for (int hf : b.hfs[h]) if (b.cellof[hf] >= 0) vc.push_back(b.cellof[hf]);
                    same("derived-vertex_cells", w, drain(m.vc_iter(vh)), uniq(vc));
                    if (m.is_boundary(vh) != isb_v(v)) ctx.fail(OW, "derived-is_boundary", w);
                }
            }
        }
    }
    if (eb) {
        for (int he = 0; he < 2 * b.ne; ++he) if (b.elive[he / 2]) {
            HalfEdgeHandle hh(he);
            std::string w = "halfedge " + std::to_string(he);
            same("he-halffaces", "halfedge_halffaces " + w, drain(m.hehf_iter(hh)), b.hfs[he]);
            std::vector<int> fs; for (int hf : b.hfs[he]) fs.push_back(hf / 2);
            same("derived-halfedge_faces", w, drain(m.hef_iter(hh)), uniq(fs));
            ++evaluated;
            if (fb) {
                std::vector<int> cs; for (int hf : b.hfs[he]) if (b.cellof[hf] >= 0) cs.push_back(b.cellof[hf]);
                same("derived-halfedge_cells", w, drain(m.hec_iter(hh)), uniq(cs));
                if (m.is_boundary(hh) != isb_he(he)) ctx.fail(OW, "derived-is_boundary", w);
            }
            if (!(he & 1)) {
                EdgeHandle eh(he / 2);
                std::string we = "edge " + std::to_string(he / 2);
                if (m.valence(eh) != b.hfs[he].size()) ctx.fail(OW, "derived-valence", we);
                std::vector<int> ehf; for (int hf : b.hfs[he]) { ehf.push_back(hf); ehf.push_back(hf ^ 1); }
                same("derived-edge_halffaces", we, drain(m.ehf_iter(eh)), ehf);
                same("derived-edge_faces", we, drain(m.ef_iter(eh)), uniq(fs));
                if (fb) {
                    std::vector<int> cs; for (int hf : b.hfs[he]) if (b.cellof[hf] >= 0) cs.push_back(b.cellof[hf]);
                    same("derived-edge_cells", we, drain(m.ec_iter(eh)), uniq(cs));
                    if (m.is_boundary(eh) != isb_he(he)) ctx.fail(OW, "derived-is_boundary", we);
                }
            }
        }
    }
    if (fb) {
        for (int hf = 0; hf < 2 * b.nf; ++hf) if (b.flive[hf / 2]) {
            HalfFaceHandle h(hf);
            int got = m.incident_cell(h).idx();
            if (got != b.cellof[hf]) ctx.fail(OW, "incident-cell", "halfface " + std::to_string(hf) + " incident_cell=" + std::to_string(got) + " brute-force " + std::to_string(b.cellof[hf]));
            if (got >= 0 && !b.clive[got]) ctx.fail(OW, "deleted-in-answer", "incident_cell names a deleted cell");
            if (m.is_boundary(h) != isb_hf(hf)) ctx.fail(OW, "derived-is_boundary", "halfface " + std::to_string(hf));
            ++evaluated;
            if (!(hf & 1)) {
                FaceHandle f(hf / 2);
                if (m.is_boundary(f) != isb_f(hf / 2)) ctx.fail(OW, "derived-is_boundary", "face " + std::to_string(hf / 2));
                auto fc = m.face_cells(f);
                if (fc[0].idx() != b.cellof[hf] || fc[1].idx() != b.cellof[hf + 1]) ctx.fail(OW, "derived-face_cells", "face " + std::to_string(hf / 2));
            }
        }
        for (int c = 0; c < b.nc; ++c) if (b.clive[c]) {
            CellHandle ch(c);
            std::vector<int> cc; for (int hf : b.C[c]) if (b.cellof[hf ^ 1] >= 0) cc.push_back(b.cellof[hf ^ 1]);
            same("derived-cell_cells", "cell " + std::to_string(c), drain(m.cc_iter(ch)), uniq(cc));
            if (m.is_boundary(ch) != isb_c(c)) ctx.fail(OW, "derived-is_boundary", "cell " + std::to_string(c));
        }
        // boundary iterators: ascending live boundary items
        std::vector<int> want;
        for (int hf = 0; hf < 2 * b.nf; ++hf) if (b.flive[hf / 2] && isb_hf(hf)) want.push_back(hf);
        { auto got = drain(m.bhf_iter()); if (got != want) bad("derived-boundary-iter", "bhf_iter", got, want); }
        want.clear(); for (int f = 0; f < b.nf; ++f) if (b.flive[f] && isb_f(f)) want.push_back(f);
        { auto got = drain(m.bf_iter()); if (got != want) bad("derived-boundary-iter", "bf_iter", got, want); }
        want.clear(); for (int c = 0; c < b.nc; ++c) if (b.clive[c] && isb_c(c)) want.push_back(c);
        { auto got = drain(m.bc_iter()); if (got != want) bad("derived-boundary-iter", "bc_iter", got, want); }
        if (eb) {
            want.clear(); for (int he = 0; he < 2 * b.ne; ++he) if (b.elive[he / 2] && isb_he(he)) want.push_back(he);
            { auto got = drain(m.bhe_iter()); if (got != want) bad("derived-boundary-iter", "bhe_iter", got, want); }
            want.clear(); for (int e = 0; e < b.ne; ++e) if (b.elive[e] && isb_he(2 * e)) want.push_back(e);
            { auto got = drain(m.be_iter()); if (got != want) bad("derived-boundary-iter", "be_iter", got, want); }
            if (vb) {
                want.clear(); for (int v = 0; v < b.nv; ++v) if (b.vlive[v] && isb_v(v)) want.push_back(v);
                auto got = drain(m.bv_iter()); if (got != want) bad("derived-boundary-iter", "bv_iter", got, want);
            }
        }
    }
    st.add("c01_relations_checked", evaluated);
    int livec = 0; for (char c : b.clive) livec += c;
    if (evaluated > 0 && (livec > 0 || b.nf > 0)) st.nt(digest);
    bool tomb = false;
    for (char c : b.clive) if (!c) tomb = true;
    for (char c : b.flive) if (!c) tomb = true;
    for (char c : b.elive) if (!c) tomb = true;
    if (tomb && evaluated) st.add("probe_c01_with_tombstones");
}

}  // namespace sim
