#include "hist_fault_ops.hh"
namespace sim { RunResult hist_execute_hex(const Plan &p) { RunResult r; { HistRun<HexMesh> h(p, r.st); RunResult x = h.run(); x.st = std::move(r.st); return x; } } }
