// Reference model of a volume mesh: same interface as the kernel, trivial inside.
// Entities carry stable uids; `slots` predicts the physical arrays (documented renumbering:
// shift-down, swap-with-last, tombstones, back-to-front collection). No bottom-up caches here:
// every incidence oracle is a brute-force scan.
#pragma once
#include <algorithm>
#include <set>
#include <string>
#include <vector>

namespace sim {

enum BaseKind { BV = 0, BE = 1, BF = 2, BC = 3 };
enum PropKind { KV = 0, KE = 1, KHE = 2, KF = 3, KHF = 4, KC = 5, KM = 6 };
inline int base_of(int pk) { static const int b[7] = {BV, BE, BE, BF, BF, BC, -1}; return b[pk]; }
inline bool is_half(int pk) { return pk == KHE || pk == KHF; }

struct MEdge { int from, to; };
struct Model {
    // by uid
    std::vector<char> alive[4];
    std::vector<MEdge> E;                  // vertex uids
    std::vector<std::vector<int>> F;       // halfedge refs 2*edge_uid+side
    std::vector<std::vector<int>> C;       // halfface refs 2*face_uid+side
    // physical arrays
    std::vector<int> slots[4];             // uid per slot (tombstones keep their uid)
    std::vector<int> slot_of[4];           // uid -> slot, -1 once physically gone
    bool deferred = true, fast = true;
    bool bu[3] = {true, true, true};       // vertex, edge, face bottom-up incidences

    int n(int k) const { return (int)slots[k].size(); }
    int n_uids(int k) const { return (int)alive[k].size(); }
    int n_deleted(int k) const { int c = 0; for (int u : slots[k]) c += !alive[k][u]; return c; }
    int n_logical(int k) const { return n(k) - n_deleted(k); }
    bool needs_gc() const { for (int k = 0; k < 4; ++k) if (n_deleted(k)) return true; return false; }
    bool is_live(int k, int uid) const { return uid >= 0 && uid < n_uids(k) && alive[k][uid]; }
    bool slot_live(int k, int s) const { return alive[k][slots[k][s]]; }
    std::vector<int> live_uids(int k) const {  // ascending uid: the rank space ops select from
        std::vector<int> r;
        for (int u = 0; u < n_uids(k); ++u) if (alive[k][u]) r.push_back(u);
        return r;
    }
    std::vector<int> live_slots(int k) const {
        std::vector<int> r;
        for (int s = 0; s < n(k); ++s) if (slot_live(k, s)) r.push_back(s);
        return r;
    }
    int genus() const {
        int g = 1 - (n_logical(BV) - n_logical(BE) + n_logical(BF) - n_logical(BC));
        return g % 2 == 0 ? g / 2 : -1;
    }

    int add(int k) {
        int u = n_uids(k);
        alive[k].push_back(1);
        slot_of[k].push_back(n(k));
        slots[k].push_back(u);
        return u;
    }
    int add_vertex() { return add(BV); }
    int add_edge(int from, int to) { E.push_back({from, to}); return add(BE); }
    int add_face(const std::vector<int> &hes) { F.push_back(hes); return add(BF); }
    int add_cell(const std::vector<int> &hfs) { C.push_back(hfs); return add(BC); }

    // half-entity reference <-> half-entity slot index
    int he_ref_of_slot(int hs) const { return 2 * slots[BE][hs / 2] + (hs & 1); }
    int hf_ref_of_slot(int hs) const { return 2 * slots[BF][hs / 2] + (hs & 1); }
    int he_slot_of_ref(int r) const { return 2 * slot_of[BE][r / 2] + (r & 1); }
    int hf_slot_of_ref(int r) const { return 2 * slot_of[BF][r / 2] + (r & 1); }
    int he_from(int r) const { return (r & 1) ? E[r / 2].to : E[r / 2].from; }
    int he_to(int r) const { return (r & 1) ? E[r / 2].from : E[r / 2].to; }
    std::vector<int> hf_hes(int r) const {  // halfedge refs of a halfface, in its own cyclic order
        const std::vector<int> &h = F[r / 2];
        if (!(r & 1)) return h;
        std::vector<int> o(h.rbegin(), h.rend());
        for (int &x : o) x ^= 1;
        return o;
    }
    std::vector<int> hf_vertices(int r) const {
        std::vector<int> v;
        for (int h : hf_hes(r)) v.push_back(he_from(h));
        return v;
    }

    // --- upward closure of a live entity (live entities only)
    struct Closure { std::vector<int> c, f, e, v; };
    Closure closure(int k, int uid) const {
        Closure r;
        std::set<int> es, fs, cs;
        if (k == BV) { for (int e = 0; e < n_uids(BE); ++e) if (alive[BE][e] && (E[e].from == uid || E[e].to == uid)) es.insert(e); r.v.push_back(uid); }
        if (k == BE) es.insert(uid);
        if (k == BV || k == BE)
            for (int f = 0; f < n_uids(BF); ++f) if (alive[BF][f]) for (int h : F[f]) if (es.count(h / 2)) { fs.insert(f); break; }
        if (k == BF) fs.insert(uid);
        if (k != BC)
            for (int c = 0; c < n_uids(BC); ++c) if (alive[BC][c]) for (int h : C[c]) if (fs.count(h / 2)) { cs.insert(c); break; }
        if (k == BC) cs.insert(uid);
        r.c.assign(cs.begin(), cs.end());
        r.f.assign(fs.begin(), fs.end());
        r.e.assign(es.begin(), es.end());
        return r;
    }

    void swap_slots(int k, int a, int b) {
        if (a == b) return;
        std::swap(slots[k][a], slots[k][b]);
        slot_of[k][slots[k][a]] = a;
        slot_of[k][slots[k][b]] = b;
    }
    void phys_remove(int k, int s) {
        if (fast) {
            int last = n(k) - 1;
            swap_slots(k, s, last);
            slot_of[k][slots[k][last]] = -1;
            slots[k].pop_back();
        } else {
            slot_of[k][slots[k][s]] = -1;
            slots[k].erase(slots[k].begin() + s);
            for (int i = s; i < n(k); ++i) slot_of[k][slots[k][i]] = i;
        }
    }
    void kill(int k, int uid) {
        alive[k][uid] = 0;
        if (!deferred) phys_remove(k, slot_of[k][uid]);
    }
    // documented order: cells, faces, edges (each by descending handle), then the vertex
    Closure delete_entity(int k, int uid) {
        Closure cl = closure(k, uid);
        auto desc = [&](int kk, std::vector<int> v) {
            std::sort(v.begin(), v.end(), [&](int a, int b) { return slot_of[kk][a] > slot_of[kk][b]; });
            for (int u : v) kill(kk, u);
        };
        desc(BC, cl.c); desc(BF, cl.f); desc(BE, cl.e); desc(BV, cl.v);
        return cl;
    }
    void collect() {  // collect_garbage(): back-to-front per kind, cells first
        if (!deferred || !needs_gc()) return;
        for (int k = 3; k >= 0; --k)
            for (int s = n(k) - 1; s >= 0; --s)
                if (!slot_live(k, s)) phys_remove(k, s);
    }
    void set_deferred(bool on) {
        if (deferred && !on) collect();
        deferred = on;
    }
    void clear() {
        for (int k = 0; k < 4; ++k) {
            for (int u : slots[k]) { alive[k][u] = 0; slot_of[k][u] = -1; }
            slots[k].clear();
        }
    }
};

}  // namespace sim
