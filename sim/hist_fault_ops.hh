// Fault-injecting checkpointer ops: C07 (arbitrary stored-byte / token / allocator faults) and C18 (per-image sweeps).
#pragma once
#include "hist_io_ops.hh"

namespace sim {

inline std::vector<uint64_t> boundary_values(uint64_t cur, int size) {
    uint64_t mask = size >= 8 ? ~0ull : ((1ull << (8 * size)) - 1);
    std::vector<uint64_t> v = {0, 1, mask - 1, mask, 0x7f, 0x80, 0xff, 0x100, 0x7fff, 0xffff, 0x10000, 0x7fffffffull, 0x80000000ull, 0xffffffffull, 0x100000000ull, 1ull << 62, 1ull << 63, cur + 1, cur - 1, cur * 2, cur ^ 1};
    std::vector<uint64_t> o;
    for (uint64_t x : v) { x &= mask; if (x != cur && std::find(o.begin(), o.end(), x) == o.end()) o.push_back(x); }
    return o;
}
inline void poke(std::string &img, size_t off, int size, uint64_t v) { for (int i = 0; i < size && off + i < img.size(); ++i) img[off + i] = (char)((v >> (8 * i)) & 0xff); }
inline uint64_t peek(const std::string &img, size_t off, int size) { uint64_t v = 0; for (int i = 0; i < size && off + i < img.size(); ++i) v |= (uint64_t)(unsigned char)img[off + i] << (8 * i); return v; }

// ------------------------------------------------------------------ fault planner
struct FaultPlan { std::string image; std::string what; };

inline void ovmb_fix_chunk_length(std::string &img, const IChunk &c, long delta) {
    // keep the framing consistent after shrinking/growing a payload by delta bytes (so the fault reaches the decoder behind the framing checks)
    uint64_t fl = peek(img, c.off + 8, 8);
    poke(img, c.off + 8, 8, fl + (uint64_t)delta);
}

inline FaultPlan plan_fault_ovmb(const std::string &orig, const IFile &dec, Rng &rng, RunStats &st) {
    FaultPlan p; p.image = orig;
    int nf = 1 + (int)rng.below(3);
    for (int k = 0; k < nf; ++k) try {
        std::string &img = p.image;
        if (img.empty()) break;
        int kind = (int)rng.below(17);
        switch (kind) {
        case 16: {   // the last handle of a TOPO chunk out of range, and the chunks it is checked against moved behind it / dropped / left alone:
                     // range checks that depend on "what has been read so far"
            if (img.size() != orig.size()) break;
            std::vector<size_t> cand;
            for (size_t i = 0; i < dec.chunks.size(); ++i) if (dec.chunks[i].type == "TOPO" && dec.chunks[i].payload_len > 24) cand.push_back(i);
            if (cand.empty()) break;
            size_t ci = cand[rng.below(cand.size())];
            const IChunk &c = dec.chunks[ci];
            size_t henc = (size_t)peek(img, c.payload_off + 15, 1);
            if (henc != 1 && henc != 2 && henc != 4) break;
            size_t at = c.payload_off + c.payload_len - henc;
            uint64_t big = rng.below(2) ? ((henc == 4) ? 0xffffffffull : (henc == 2 ? 0xffffull : 0xffull)) : peek(img, at, (int)henc) + 1 + rng.below(200);
            poke(img, at, (int)henc, big);
            int how = (int)rng.below(3);
            if (how != 0 && ci > 0) {
                // the chunk just before this one (VERT before edges, edges before faces, faces before cells in the writer's order)
                const IChunk &d = dec.chunks[ci - 1];
                size_t l1 = 16 + (size_t)d.file_length, l2 = 16 + (size_t)c.file_length;
                std::string a = img.substr(d.off, l1), b2 = img.substr(c.off, l2);
                if (how == 1) img.replace(d.off, l1 + l2, b2 + a); else img.erase(d.off, l1);
            }
            p.what += std::string("last-handle-out-of-range") + (how == 1 ? "+predecessor-chunk-moved-behind " : how == 2 ? "+predecessor-chunk-dropped " : " "); st.add("fault_handle_range_vs_chunk_order");
            break;
        }
        case 15: {   // TOPO chunk with handle_encoding := None and the handle bytes removed (self-consistent sizes)
            if (img.size() != orig.size()) break;
            std::vector<size_t> cand;
            for (size_t i = 0; i < dec.chunks.size(); ++i) if (dec.chunks[i].type == "TOPO" && dec.chunks[i].payload_len > 24) cand.push_back(i);
            if (cand.empty()) break;
            const IChunk &c = dec.chunks[cand[rng.below(cand.size())]];
            if (peek(img, c.payload_off + 13, 1) == 0) break;
            std::string payload = img.substr(c.payload_off, 24);
            poke(payload, 15, 1, 0);
            std::string chunk = img.substr(c.off, 16);
            poke(chunk, 5, 1, 0); poke(chunk, 8, 8, 24);
            chunk += payload;
            img.replace(c.off, 16 + (size_t)c.file_length, chunk);
            p.what += "handle-encoding-none-with-empty-payload "; st.add("fault_handle_encoding_none_consistent");
            break;
        }
        case 13: case 14: {   // span grown (or shrunk) together with its payload: the chunk is self-consistent, only the totals disagree
            if (img.size() != orig.size()) break;
            std::vector<size_t> cand;
            for (size_t i = 0; i < dec.chunks.size(); ++i) if (dec.chunks[i].type == "VERT" || dec.chunks[i].type == "TOPO" || dec.chunks[i].type == "PROP") cand.push_back(i);
            if (cand.empty()) break;
            const IChunk &c = dec.chunks[cand[rng.below(cand.size())]];
            size_t hdr = c.type == "VERT" ? 16 : c.type == "TOPO" ? 24 : 16;
            if (c.payload_len <= hdr) break;
            uint64_t count = peek(img, c.payload_off + 8, 4);
            if (count == 0) break;
            size_t body = c.payload_len - hdr;
            if (c.type == "TOPO" && peek(img, c.payload_off + 13, 1) == 0) break;   // variable valence: keep it simple
            if (body % count) break;
            size_t esz = body / count;
            uint64_t add = 1 + rng.below(4);
            std::string payload = img.substr(c.payload_off, c.payload_len);
            for (uint64_t i = 0; i < add; ++i) payload += payload.substr(payload.size() - esz, esz);
            poke(payload, 8, 4, count + add);
            size_t padded = (payload.size() + 7) & ~(size_t)7;
            std::string chunk = img.substr(c.off, 16);
            poke(chunk, 5, 1, padded - payload.size());
            poke(chunk, 8, 8, padded);
            chunk += payload; chunk.append(padded - payload.size(), '\0');
            img.replace(c.off, 16 + (size_t)c.file_length, chunk);
            p.what += "grow-" + c.type + "-span-by-" + std::to_string(add) + "-with-payload "; st.add("fault_span_grown_with_payload");
            break;
        }
        case 0: { size_t o = rng.below(img.size()); img[o] ^= (char)(1 << rng.below(8)); p.what += "bitflip@" + std::to_string(o) + " "; st.add("fault_bitflip"); break; }
        case 1: { size_t o = rng.below(img.size()); img[o] = (char)rng.below(256); p.what += "byte@" + std::to_string(o) + " "; st.add("fault_byte_replace"); break; }
        case 2: { size_t o = rng.below(img.size() + 1); std::string ins; for (int i = 0, n = 1 + (int)rng.below(16); i < n; ++i) ins.push_back((char)rng.below(256)); img.insert(o, ins); p.what += "insert@" + std::to_string(o) + " "; st.add("fault_insert"); break; }
        case 3: { size_t o = rng.below(img.size()); size_t n = 1 + rng.below(std::min<size_t>(32, img.size() - o)); img.erase(o, n); p.what += "delete@" + std::to_string(o) + "+" + std::to_string(n) + " "; st.add("fault_delete"); break; }
        case 4: { size_t o = rng.below(img.size()); size_t n = 1 + rng.below(std::min<size_t>(64, img.size() - o)); img.insert(o, img.substr(o, n)); p.what += "duplicate@" + std::to_string(o) + " "; st.add("fault_duplicate_block"); break; }
        case 5: { size_t o = rng.below(img.size()); img.resize(o); p.what += "truncate@" + std::to_string(o) + " "; st.add("fault_truncate"); break; }
        case 6: case 7: case 8: {   // located field -> boundary value
            if (dec.fields.empty()) break;
            const IField &f = dec.fields[rng.below(dec.fields.size())];
            if (f.off + f.size > img.size() || img.size() != orig.size()) break;
            auto bv = boundary_values(peek(img, f.off, f.size), f.size);
            uint64_t v = bv[rng.below(bv.size())];
            poke(img, f.off, f.size, v);
            p.what += f.name + "@" + std::to_string(f.off) + "=" + std::to_string(v) + " "; st.add("fault_field_boundary");
            break;
        }
        case 9: {   // chunk dropped / duplicated / swapped with its successor
            if (dec.chunks.size() < 2 || img.size() != orig.size()) break;
            size_t i = rng.below(dec.chunks.size());
            const IChunk &c = dec.chunks[i];
            size_t len = 16 + (size_t)c.file_length;
            int how = (int)rng.below(3);
            if (how == 0) { img.erase(c.off, len); p.what += "drop-chunk#" + std::to_string(i) + " "; st.add("fault_chunk_drop"); }
            else if (how == 1) { img.insert(c.off, img.substr(c.off, len)); p.what += "dup-chunk#" + std::to_string(i) + " "; st.add("fault_chunk_duplicate"); }
            else if (i + 1 < dec.chunks.size()) { const IChunk &d = dec.chunks[i + 1]; size_t l2 = 16 + (size_t)d.file_length; std::string a = img.substr(c.off, len), b = img.substr(d.off, l2); img.replace(c.off, len + l2, b + a); p.what += "swap-chunks#" + std::to_string(i) + " "; st.add("fault_chunk_swap"); }
            break;
        }
        case 10: {  // payload shortened / lengthened with consistent framing: reaches the decoders behind the framing checks
            if (dec.chunks.empty() || img.size() != orig.size()) break;
            std::vector<size_t> cand;
            for (size_t i = 0; i < dec.chunks.size(); ++i) if (dec.chunks[i].payload_len >= 8) cand.push_back(i);
            if (cand.empty()) break;
            const IChunk &c = dec.chunks[cand[rng.below(cand.size())]];
            size_t cut = 8 * (1 + rng.below(std::min<size_t>(4, c.payload_len / 8)));   // multiples of 8 keep the padding rule
            img.erase(c.payload_off + c.payload_len - cut, cut);
            ovmb_fix_chunk_length(img, c, -(long)cut);
            p.what += "shorten-" + c.type + "-payload-by-" + std::to_string(cut) + " "; st.add("fault_payload_short_consistent");
            break;
        }
        case 11: {  // DIRP: serialized default shortened / type name changed, framing kept consistent via padding
            const IField *f = nullptr;
            for (auto &x : dec.fields) if (x.name == "dirp_default_len" && rng.chance(0.5)) f = &x;
            if (!f || img.size() != orig.size()) break;
            uint64_t len = peek(img, f->off, 4);
            if (len == 0) break;
            // shrink the default by one byte and hand the byte to the padding of the DIRP chunk
            for (auto &c : dec.chunks) if (c.type == "DIRP" && f->off > c.off && f->off < c.off + 16 + c.file_length) {
                if (f->off + 4 + len > img.size()) break;
                poke(img, f->off, 4, len - 1);
                img.erase(f->off + 4 + (size_t)len - 1, 1);
                img.insert(c.payload_off + c.payload_len - 1, 1, '\0');
                poke(img, c.off + 5, 1, peek(img, c.off + 5, 1) + 1);
                p.what += "dirp-default-shorter "; st.add("fault_dirp_default_short");
            }
            break;
        }
        default: {  // face halfedge handles permuted (open loops) / handle replaced by another in-range handle
            std::vector<const IField *> hs;
            for (auto &c : dec.chunks) if (c.type == "TOPO" && c.payload_len > 24 && img.size() == orig.size()) {
                size_t a = c.payload_off + 24, b = c.payload_off + c.payload_len;
                size_t o1 = a + rng.below(b - a), o2 = a + rng.below(b - a);
                std::swap(img[o1], img[o2]);
                p.what += "topo-bytes-swapped@" + std::to_string(o1) + "," + std::to_string(o2) + " "; st.add("fault_topo_handles_permuted");
                break;
            }
            break;
        }
        }
    } catch (const std::out_of_range &) { /* an earlier fault moved the bytes this one aimed at */ }
    return p;
}

inline FaultPlan plan_fault_ascii(const std::string &orig, Rng &rng, RunStats &st) {
    FaultPlan p;
    std::vector<std::string> lines;
    { std::istringstream in(orig); std::string l; while (std::getline(in, l)) lines.push_back(l); }
    int nf = 1 + (int)rng.below(3);
    static const char *junk[] = {"abc", "-1", "4294967296", "18446744073709551616", "1e999", "nan", "", "0x10", "99999999999", "-", "3.5", "\"", "Vertices", "VProp int \"x\""};
    for (int k = 0; k < nf && !lines.empty(); ++k) {
        size_t li = rng.below(lines.size());
        switch (rng.below(8)) {
        case 0: lines.erase(lines.begin() + li); p.what += "drop-line#" + std::to_string(li) + " "; st.add("fault_ascii_line_dropped"); break;
        case 1: lines.insert(lines.begin() + li, lines[li]); p.what += "repeat-line#" + std::to_string(li) + " "; st.add("fault_ascii_line_repeated"); break;
        case 2: case 3: case 4: {
            std::vector<std::string> tok; { std::istringstream in(lines[li]); std::string t; while (in >> t) tok.push_back(t); }
            if (tok.empty()) break;
            size_t ti = rng.below(tok.size());
            tok[ti] = junk[rng.below(sizeof junk / sizeof *junk)];
            std::string l; for (size_t i = 0; i < tok.size(); ++i) { if (i) l += " "; l += tok[i]; }
            lines[li] = l; p.what += "token#" + std::to_string(li) + "." + std::to_string(ti) + "='" + tok[ti] + "' "; st.add("fault_ascii_token_replaced");
            break;
        }
        case 5: { std::vector<std::string> tok; { std::istringstream in(lines[li]); std::string t; while (in >> t) tok.push_back(t); } if (tok.size() < 2) break; tok.erase(tok.begin() + rng.below(tok.size())); std::string l; for (size_t i = 0; i < tok.size(); ++i) { if (i) l += " "; l += tok[i]; } lines[li] = l; p.what += "drop-token#" + std::to_string(li) + " "; st.add("fault_ascii_token_dropped"); break; }
        case 6: lines.resize(li); p.what += "truncate-at-line#" + std::to_string(li) + " "; st.add("fault_truncate"); break;
        default: { if (lines[li].empty()) break; size_t o = rng.below(lines[li].size()); lines[li][o] = (char)rng.below(256); p.what += "byte#" + std::to_string(li) + " "; st.add("fault_byte_replace"); break; }
        }
    }
    for (auto &l : lines) { p.image += l; p.image += "\n"; }
    if (rng.chance(0.1) && !p.image.empty()) { p.image.pop_back(); p.what += "no-final-newline "; }
    return p;
}

template <class Dst> std::string compare_with_ifile(const Dst &d, const IFile &f) {
    if (d.n_vertices() != f.nv || d.n_edges() != f.ne || d.n_faces() != f.nf || d.n_cells() != f.nc) return "counts differ from the file's";
    for (size_t i = 0; i < f.edges.size(); ++i) { const auto &e = d.edge(EdgeHandle((int)i)); if ((uint64_t)e.from_vertex().idx() != f.edges[i][0] || (uint64_t)e.to_vertex().idx() != f.edges[i][1]) return "edge " + std::to_string(i) + " differs from the file's"; }
    for (size_t i = 0; i < f.faces.size(); ++i) { std::vector<uint64_t> g; for (auto h : d.face(FaceHandle((int)i)).halfedges()) g.push_back((uint64_t)h.idx()); if (g != f.faces[i]) return "face " + std::to_string(i) + " differs from the file's"; }
    for (size_t i = 0; i < f.cells.size(); ++i) { std::vector<uint64_t> g; for (auto h : d.cell(CellHandle((int)i)).halffaces()) g.push_back((uint64_t)h.idx()); if (g != f.cells[i]) return "cell " + std::to_string(i) + " differs from the file's"; }
    return "";
}

// ------------------------------------------------------------------ C07
template <class Mesh> template <class Dst>
void HistRun<Mesh>::fault_load_into(const std::string &image, bool ascii, int variant, const std::string &what, long alloc_fail_at) {
    const std::vector<std::string> OW = {"C07"};
    Dst dst;
    ReadFaults rf; rf.max_chunk = 1 + (size_t)(variant * 37 % 600);
    // the allocator cap (48 MiB per request) bounds what a declared count can legitimately cost: ~5e7 element initialisations
    uint64_t budget = 250000000ull + 6000ull * image.size();
    bool tc = variant & 1, bu = variant & 2;
    fprintf(stderr, "OVMSIM-FAULT %s image=%zu bytes %s target=%s tc=%d bu=%d\n", ascii ? "ascii" : "ovmb", image.size(), what.c_str(), KernelOf<Dst>::name(), (int)tc, (int)bu);
    alloc_arm(alloc_fail_at, (size_t)48 << 20);
    LoadOutcome lo;
    if (ascii) lo = load_ascii(image, dst, rf, tc, bu, budget);
    else { IO::ReadOptions ro; ro.topology_check = tc; ro.bottom_up_incidences = bu; lo = load_ovmb(image, dst, rf, ro, budget); }
    long refused = g_alloc.refused;
    g_alloc.refused = 0;
    alloc_disarm();
    st.add("sim_steps", (long)lo.steps);
    if (refused) st.add("fault_alloc_refused", refused);
    if (lo.bad_exception) ctx.fail(OW, std::string(ascii ? "ascii" : "ovmb") + "-bad-exception", what);
    if (lo.threw) {
        st.add("c07_outcome_exception_" + lo.what.substr(0, lo.what.find(':')));
        // "a standard exception when a declared size cannot be allocated": bad_alloc / length_error; anything else escaping a reader is not a reported failure
        if (lo.what != "bad_alloc" && lo.what != "length_error") ctx.fail(OW, std::string(ascii ? "ascii" : "ovmb") + "-escaping-exception", what + ": " + lo.what);
        if (!refused) st.add("probe_c07_bad_alloc_without_cap");
        return;
    }
    if (!lo.ok) { st.add("c07_outcome_rejected"); return; }
    st.add("c07_outcome_success");
    std::string v = validity_scan(dst);
    if (!v.empty()) ctx.fail(OW, std::string(ascii ? "ascii" : "ovmb") + (v.find("property") != std::string::npos || v.find("position") != std::string::npos ? "-prop-size" : "-invalid-handle"), what + ": reported success but " + v);
    // a mesh reported as successfully read must be usable: the full incidence and iterator batteries run on it under ASan
    if (!dst.has_full_bottom_up_incidences()) dst.enable_bottom_up_incidences(true);
    bool multi = false;
    { Brute b = brute_of(dst); for (int c : b.cellcount) if (c > 1) multi = true; }
    if (!multi) {
        Ctx sub = ctx; sub.P = "C01";
        try { battery_c01(dst, sub, st, 0); } catch (const Violation &) { /* incidence relations of a mutated file are not this property's business */ } catch (const Inconclusive &) {}
    }
    st.add("probe_c07_success_after_fault");
}

template <class Mesh> void HistRun<Mesh>::op_fault_load(R &r, const Op &q) {
    if (r.m.needs_gc()) { r.mesh->collect_garbage(); r.m.collect(); if (r.m.needs_gc()) { r.mesh->enable_deferred_deletion(false); r.m.set_deferred(false); } }
    if (r.m.needs_gc()) return;
    bool ascii = q.a[0] % 3 == 0;
    io_refresh(r, q.a[1], ascii);
    Rng rng((uint64_t)q.a[1] * 1000003 + 11);
    std::string img; WriteFaults wf;
    if (ascii) { if (!save_ascii(*r.mesh, img, wf)) return; }
    else if (save_ovmb(*r.mesh, img, wf) != IO::WriteResult::Ok) return;
    FaultPlan fp;
    int mode = (int)rng.below(10);
    if (mode == 0) { for (int i = 0, n = (int)rng.below(200); i < n; ++i) fp.image.push_back((char)rng.below(256)); fp.what = "arbitrary bytes"; st.add("fault_arbitrary_bytes"); }
    else if (mode == 1 && !last_image.empty()) { size_t a = rng.below(img.size() + 1), b = rng.below(last_image.size() + 1); fp.image = img.substr(0, a) + last_image.substr(b); fp.what = "splice@" + std::to_string(a); st.add("fault_splice"); }
    else if (ascii) fp = plan_fault_ascii(img, rng, st);
    else {
        // half of the time the faults hit another legal encoding of the same mesh (several spans per kind, wider ints, offsets, extra chunks)
        if (rng.chance(0.5)) { IFile d0 = ovmb_decode(img); if (d0.verdict == IFile::VALID) { EncodeChoices ch; img = ovmb_encode(d0, rng, ch); st.add("probe_fault_on_reencoded_image"); } }
        fp = plan_fault_ovmb(img, ovmb_decode(img), rng, st);
    }
    last_image = img;
    long alloc_fail = rng.chance(0.15) ? 1 + (long)rng.below(400) : -1;
    if (alloc_fail >= 0) { fp.what += "alloc-fail#" + std::to_string(alloc_fail) + " "; st.add("fault_alloc_fail_planned"); }
    int variant = q.a[2] % 64;
    int target = (q.a[2] / 64) % 4;
    fault_what = fp.what;
    if (target == 1) fault_load_into<TetMesh>(fp.image, ascii, variant, fp.what, alloc_fail);
    else if (target == 2) fault_load_into<HexMesh>(fp.image, ascii, variant, fp.what, alloc_fail);
    else fault_load_into<PolyMesh>(fp.image, ascii, variant, fp.what, alloc_fail);
    st.nt(fnv1a(fp.image));
}

// ------------------------------------------------------------------ C18: per-image sweeps
template <class Mesh> void HistRun<Mesh>::op_sweep(R &r, const Op &q) {
    const std::vector<std::string> OW = {"C18"};
    if (r.m.needs_gc()) { r.mesh->collect_garbage(); r.m.collect(); if (r.m.needs_gc()) { r.mesh->enable_deferred_deletion(false); r.m.set_deferred(false); } }
    if (r.m.needs_gc()) return;
    io_refresh(r, q.a[1], false);
    std::string img; WriteFaults wf0;
    if (save_ovmb(*r.mesh, img, wf0) != IO::WriteResult::Ok) return;
    IFile dec = ovmb_decode(img);
    if (dec.verdict != IFile::VALID) throw Inconclusive{"harness: independent decoder rejects writer output: " + dec.reason};
    if ((q.a[1] & 1) && ((q.a[0] % 8) == 2 || (q.a[0] % 8) == 3 || (q.a[0] % 8) == 0)) {   // sweep another legal encoding of the same mesh
        Rng er((uint64_t)q.a[1] * 2654435761u); EncodeChoices ch;
        std::string re = ovmb_encode(dec, er, ch);
        IFile d2 = ovmb_decode(re);
        if (d2.verdict == IFile::VALID) { img = re; dec = d2; st.add("probe_sweep_on_reencoded_image"); }
    }
    bool complete = plan.c("sweep_complete", 0);
    size_t stride = complete ? 1 : std::max<size_t>(1, img.size() / 48);
    size_t phase = complete ? 0 : (size_t)q.a[2] % stride;
    int kind = q.a[0] % 8;
    uint64_t budget = 250000000ull + 6000ull * img.size();
    auto load = [&](const std::string &image, ReadFaults &rf, PolyMesh &dst) {
        IO::ReadOptions ro; ro.topology_check = q.a[3] & 1; ro.bottom_up_incidences = q.a[3] & 2;
        alloc_arm(-1, (size_t)48 << 20);
        LoadOutcome lo = load_ovmb(image, dst, rf, ro, budget);
        alloc_disarm();
        st.add("sim_steps", (long)lo.steps);
        if (lo.bad_exception) ctx.fail(OW, "bad-exception", "");
        return lo;
    };
    std::set<size_t> boundaries;
    for (auto &c : dec.chunks) { boundaries.insert(c.off); boundaries.insert(c.off + 16); boundaries.insert(c.payload_off + c.payload_len); }
    long cases = 0;
    if (kind == 0 || kind == 1) {
        // every strict prefix is rejected: as a short image, and as "size reported, EOF early"
        for (size_t L = 0; L < img.size(); ++L) {
            if (!(L % stride == phase || boundaries.count(L))) continue;
            PolyMesh dst; ReadFaults rf; LoadOutcome lo;
            if (kind == 0) { lo = load(img.substr(0, L), rf, dst); st.add("fault_truncate"); }
            else { rf.eof_at = (long)L; lo = load(img, rf, dst); st.add("fault_early_eof"); }
            ++cases;
            if (lo.ok) ctx.fail(OW, std::string(kind == 0 ? "prefix-ok" : "early-eof-ok") + (boundaries.count(L) ? "@chunk-boundary" : "@inside"), "a prefix of " + std::to_string(L) + " of " + std::to_string(img.size()) + " bytes was read with result Ok");
            if (boundaries.count(L)) st.add("probe_c18_truncation_at_chunk_boundary");
        }
    } else if (kind == 2) {
        // single-field substitutions in the file header, chunk headers and sub-headers with boundary values
        for (size_t fi = 0; fi < dec.fields.size(); ++fi) {
            const IField &f = dec.fields[fi];
            bool file_header = f.off < 48;   // few and cheap: always swept with every boundary value
            if (!complete && !file_header && (fi + phase) % 3 != 0) continue;
            for (uint64_t v : boundary_values(peek(img, f.off, f.size), f.size)) {
                if (!complete && !file_header && ((v ^ (uint64_t)q.a[2]) % 5) > 1) continue;
                std::string mut = img;
                poke(mut, f.off, f.size, v);
                IFile cls = ovmb_decode(mut);
                PolyMesh dst; ReadFaults rf;
                LoadOutcome lo = load(mut, rf, dst);
                ++cases; st.add("fault_field_boundary");
                if (cls.verdict == IFile::INVALID) { st.add("c18_class_invalid"); if (lo.ok) ctx.fail(OW, "header-" + f.name, f.name + " at byte " + std::to_string(f.off) + " := " + std::to_string(v) + " (" + cls.reason + ") was read with result Ok"); }
                else if (cls.verdict == IFile::VALID) {
                    st.add("c18_class_valid");
                    if (dec.topo_type == cls.topo_type || cls.topo_type == 0) {
                        if (!lo.ok && !lo.threw && !(q.a[3] & 1)) ctx.fail(OW, "valid-rejected", f.name + " := " + std::to_string(v) + " is another legal encoding but was rejected with " + lo.result);
                        if (lo.ok) { std::string d = compare_with_ifile(dst, cls); if (!d.empty()) ctx.fail(OW, "valid-differs", f.name + " := " + std::to_string(v) + ": " + d); }
                    }
                } else st.add("c18_class_undecided");
            }
        }
    } else if (kind == 3) {
        for (size_t i = 0; i < dec.chunks.size(); ++i) for (int how = 0; how < 3; ++how) {
            const IChunk &c = dec.chunks[i];
            size_t len = 16 + (size_t)c.file_length;
            std::string mut = img;
            if (how == 0) mut.erase(c.off, len);
            else if (how == 1) mut.insert(c.off, img.substr(c.off, len));
            else { if (i + 1 >= dec.chunks.size()) continue; const IChunk &d = dec.chunks[i + 1]; size_t l2 = 16 + (size_t)d.file_length; mut.replace(c.off, len + l2, img.substr(d.off, l2) + img.substr(c.off, len)); }
            IFile cls = ovmb_decode(mut);
            PolyMesh dst; ReadFaults rf;
            LoadOutcome lo = load(mut, rf, dst);
            ++cases; st.add(how == 0 ? "fault_chunk_drop" : how == 1 ? "fault_chunk_duplicate" : "fault_chunk_swap");
            static const char *hn[3] = {"dropped", "duplicated", "swapped-with-next"};
            if (cls.verdict == IFile::INVALID) { st.add("c18_class_invalid"); if (lo.ok) ctx.fail(OW, std::string("chunk-") + hn[how], c.type + " chunk #" + std::to_string(i) + " " + hn[how] + " (" + cls.reason + ") was read with result Ok"); }
            else if (cls.verdict == IFile::VALID) { st.add("c18_class_valid"); if (lo.ok) { std::string d = compare_with_ifile(dst, cls); if (!d.empty()) ctx.fail(OW, "valid-differs", std::string("chunk ") + hn[how] + ": " + d); } else if (!lo.threw && !(q.a[3] & 1)) ctx.fail(OW, "valid-rejected", c.type + " chunk #" + std::to_string(i) + " " + hn[how] + " is still a legal file but was rejected with " + lo.result); }
            else st.add("c18_class_undecided");
        }
    } else if (kind == 4) {
        // the input stream starts failing at byte p
        for (size_t p = 0; p < img.size(); ++p) {
            if (!(p % stride == phase || boundaries.count(p))) continue;
            PolyMesh dst; ReadFaults rf; rf.eio_at = (long)p; rf.max_chunk = 1 + (p * 7) % 97;
            LoadOutcome lo = load(img, rf, dst);
            ++cases; st.add("fault_read_eio", rf.fired_eio ? 1 : 0);
            if (lo.ok) ctx.fail(OW, "read-fail-ok", "input stream failing from byte " + std::to_string(p) + " of " + std::to_string(img.size()) + (boundaries.count(p) ? " (chunk boundary)" : "") + " gave result Ok");
        }
        { PolyMesh dst; ReadFaults rf; rf.seek_fails = true; load(img, rf, dst); st.add("fault_seek_fail", rf.fired_seek ? 1 : 0); }
    } else if (kind == 6 || kind == 7) {
        // path overloads behind the syscall seam: the device is full after p bytes (write side), read(2) fails after p bytes (read side)
        std::string path = g_scratch_dir + "/sweep_" + std::to_string(getpid()) + ".ovmb";
        if (kind == 7) { std::ofstream f(path, std::ios::binary); f << img; }
        for (size_t p = 0; p < img.size(); ++p) {
            if (!(p % stride == phase || boundaries.count(p))) continue;
            if (kind == 6) {
                sys_arm(path.c_str(), (long)p, -1, false);
                IO::WriteResult wr = IO::ovmb_write(std::filesystem::path(path), *r.mesh);
                long fired = g_sys.fired_enospc;
                sys_disarm();
                ++cases; st.add("fault_syscall_enospc", fired ? 1 : 0);
                if (!fired) st.add("probe_syscall_seam_not_reached");   // (e.g. the writer never got as far as byte p) - nothing to judge
                else if (wr == IO::WriteResult::Ok) ctx.fail(OW, "write-fail-ok-path", "device full after " + std::to_string(p) + " of " + std::to_string(img.size()) + " bytes (write(2) returned ENOSPC " + std::to_string(fired) + " times), ovmb_write(path) returned Ok");
            } else {
                PolyMesh dst;
                sys_arm(path.c_str(), -1, (long)p, false);
                IO::ReadOptions ro; ro.topology_check = q.a[3] & 1; ro.bottom_up_incidences = q.a[3] & 2;
                IO::ReadResult rr = IO::ReadResult::OtherError;
                try { rr = IO::ovmb_read(std::filesystem::path(path), dst, ro); } catch (const std::exception &) {}
                long fired = g_sys.fired_eio;
                sys_disarm();
                ++cases; st.add("fault_syscall_read_eio", fired ? 1 : 0);
                if (!fired) st.add("probe_syscall_seam_not_reached");
                else if (rr == IO::ReadResult::Ok) ctx.fail(OW, "read-fail-ok-path", "read(2) failing with EIO after " + std::to_string(p) + " of " + std::to_string(img.size()) + " bytes, ovmb_read(path) returned Ok");
            }
        }
        unlink(path.c_str());
    } else {
        // the output stream starts failing at byte p
        for (size_t p = 0; p < img.size(); ++p) {
            if (!(p % stride == phase || boundaries.count(p))) continue;
            WriteFaults wf; wf.fail_at = (long)p;
            std::string out;
            IO::WriteResult wr = save_ovmb(*r.mesh, out, wf);
            ++cases; st.add("fault_write_fail", wf.fired_fail ? 1 : 0);
            if (wr == IO::WriteResult::Ok) ctx.fail(OW, "write-fail-ok", "output stream failing after " + std::to_string(p) + " of " + std::to_string(img.size()) + " bytes, ovmb_write returned Ok");
        }
    }
    st.add("c18_cases", cases);
    if (cases) st.nt(fnv1a(img) ^ (uint64_t)kind);
}

}  // namespace sim
