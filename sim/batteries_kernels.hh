// Batteries C15 (tetrahedral kernel) and C16 (hexahedral kernel)
#pragma once
#include <OpenVolumeMesh/Unstable/Topology/TetTopology.hh>
#include <OpenVolumeMesh/Unstable/Topology/TriangleTopology.hh>
#include "batteries3.hh"

namespace sim {

inline std::vector<int> canon_even(const std::vector<int> &t) {
    // canonical representative of an oriented 4-tuple (orbit under even permutations)
    static const int P[12][4] = {{0,1,2,3},{0,2,3,1},{0,3,1,2},{1,0,3,2},{1,2,0,3},{1,3,2,0},{2,0,1,3},{2,1,3,0},{2,3,0,1},{3,0,2,1},{3,1,0,2},{3,2,1,0}};
    std::vector<int> best;
    for (auto &p : P) { std::vector<int> c = {t[p[0]], t[p[1]], t[p[2]], t[p[3]]}; if (best.empty() || c < best) best = c; }
    return best;
}

// ------------------------------------------------------------------ C15
template <class M> void battery_c15(const M &m, const Ctx &ctx, RunStats &st, uint64_t digest) {
    const std::vector<std::string> OW = {"C15"};
    Brute b = brute_of(m);
    long n = 0;
    for (int f = 0; f < b.nf; ++f) if (b.flive[f] && b.F[f].size() != 3) ctx.fail(OW, "shape", "face " + std::to_string(f) + " has " + std::to_string(b.F[f].size()) + " edges");
    const bool fb = m.has_face_bottom_up_incidences();
    for (int c = 0; c < b.nc; ++c) if (b.clive[c]) {
        std::string w = "cell " + std::to_string(c);
        if (b.C[c].size() != 4) ctx.fail(OW, "shape", w + " has " + std::to_string(b.C[c].size()) + " faces");
        std::set<int> vs;
        for (int hf : b.C[c]) for (int h : b.F[hf / 2]) { vs.insert(b.from(h)); vs.insert(b.to(h)); }
        if (vs.size() != 4) ctx.fail(OW, "shape", w + " has " + std::to_string(vs.size()) + " distinct vertices");
        if (!fb) continue;
        CellHandle ch(c);
        auto apex_of = [&](const std::vector<int> &cyc) { for (int v : vs) if (std::find(cyc.begin(), cyc.end(), v) == cyc.end()) return v; return -1; };
        for (int hf : b.C[c]) {
            if (b.cellof[hf] != c) continue;
            std::vector<int> hes = b.hf_hes(hf), cyc;
            for (int h : hes) cyc.push_back(b.from(h));
            int apex = apex_of(cyc);
            std::vector<int> got;
            for (auto v : m.get_cell_vertices(HalfFaceHandle(hf))) got.push_back(v.idx());
            std::vector<int> want = cyc; want.push_back(apex);
            if (got != want) ctx.fail(OW, "get_cell_vertices-hf", w + " halfface " + std::to_string(hf) + " got " + vec_str(got) + " expected " + vec_str(want));
            for (size_t k = 0; k < 3; ++k) {
                got.clear();
                for (auto v : m.get_cell_vertices(HalfFaceHandle(hf), HalfEdgeHandle(hes[k]))) got.push_back(v.idx());
                want = rotate_to(cyc, k); want.push_back(apex);
                if (got != want) ctx.fail(OW, "get_cell_vertices-hf-he", w + " halfface " + std::to_string(hf) + " halfedge " + std::to_string(hes[k]) + " got " + vec_str(got) + " expected " + vec_str(want));
            }
            if (m.halfface_opposite_vertex(HalfFaceHandle(hf)).idx() != apex) ctx.fail(OW, "opposite-vertex", w + " halfface " + std::to_string(hf));
            if (m.vertex_opposite_halfface(ch, VertexHandle(apex)).idx() != hf) ctx.fail(OW, "opposite-halfface", w + " vertex " + std::to_string(apex));
            if (b.cellof[hf ^ 1] < 0 && m.halfface_opposite_vertex(HalfFaceHandle(hf ^ 1)).is_valid()) ctx.fail(OW, "opposite-vertex", "boundary halfface must give the invalid vertex");
            // label table, all start vertices of this halfface
            for (size_t k = 0; k < 3; ++k) {
                int a = cyc[k], bb = cyc[(k + 1) % 3], cc = cyc[(k + 2) % 3], d = apex;
                for (int variant = 0; variant < 2; ++variant) {
                    TetTopology t = variant == 0 ? TetTopology(m, ch, HalfFaceHandle(hf), VertexHandle(a)) : TetTopology(m, HalfFaceHandle(hf), VertexHandle(a));
                    auto bad = [&](const std::string &what) { ctx.fail(OW, "tettopology", w + " abc=" + std::to_string(hf) + " a=" + std::to_string(a) + ": " + what); };
                    if (t.a().idx() != a || t.b().idx() != bb || t.c().idx() != cc || t.d().idx() != d) bad("vertex labels");
                    auto he = [&](HalfEdgeHandle h, int x, int y, const char *nm) { if (!h.is_valid() || h.idx() >= 2 * b.ne || !b.elive[h.idx() / 2] || b.from(h.idx()) != x || b.to(h.idx()) != y) bad(std::string("halfedge ") + nm); };
                    he(t.ab(), a, bb, "ab"); he(t.bc(), bb, cc, "bc"); he(t.ca(), cc, a, "ca"); he(t.cd(), cc, d, "cd"); he(t.ad(), a, d, "ad"); he(t.bd(), bb, d, "bd");
                    he(t.ba(), bb, a, "ba"); he(t.cb(), cc, bb, "cb"); he(t.ac(), a, cc, "ac"); he(t.dc(), d, cc, "dc"); he(t.da(), d, a, "da"); he(t.db(), d, bb, "db");
                    auto hfc = [&](HalfFaceHandle h, std::vector<int> cy, bool inner, const char *nm) {
                        if (!h.is_valid() || h.idx() >= 2 * b.nf) bad(std::string("halfface ") + nm);
                        std::vector<int> have; for (int x : b.hf_hes(h.idx())) have.push_back(b.from(x));
                        if (!cyc_equal(have, cy)) bad(std::string("halfface ") + nm + " has vertices " + vec_str(have) + " expected cycle " + vec_str(cy));
                        bool in_cell = std::find(b.C[c].begin(), b.C[c].end(), h.idx()) != b.C[c].end();
                        bool opp_in_cell = std::find(b.C[c].begin(), b.C[c].end(), h.idx() ^ 1) != b.C[c].end();
                        if (inner ? !in_cell : !opp_in_cell) bad(std::string("halfface ") + nm + (inner ? " is not a halfface of the cell" : " is not the opposite of a halfface of the cell"));
                    };
                    hfc(t.abc(), {a, bb, cc}, true, "abc"); hfc(t.bca(), {a, bb, cc}, true, "bca"); hfc(t.cab(), {a, bb, cc}, true, "cab");
                    hfc(t.bdc(), {bb, d, cc}, true, "bdc"); hfc(t.dcb(), {bb, d, cc}, true, "dcb"); hfc(t.cbd(), {bb, d, cc}, true, "cbd");
                    hfc(t.acd(), {a, cc, d}, true, "acd"); hfc(t.cda(), {a, cc, d}, true, "cda"); hfc(t.dac(), {a, cc, d}, true, "dac");
                    hfc(t.adb(), {a, d, bb}, true, "adb"); hfc(t.bad(), {a, d, bb}, true, "bad"); hfc(t.dba(), {a, d, bb}, true, "dba");
                    hfc(t.acb(), {a, cc, bb}, false, "acb"); hfc(t.bcd(), {bb, cc, d}, false, "bcd"); hfc(t.adc(), {a, d, cc}, false, "adc"); hfc(t.abd(), {a, bb, d}, false, "abd");
                    hfc(t.bac(), {a, cc, bb}, false, "bac"); hfc(t.cdb(), {bb, cc, d}, false, "cdb"); hfc(t.dca(), {a, d, cc}, false, "dca"); hfc(t.dab(), {a, bb, d}, false, "dab");
                    // get_label inverts the accessors
                    using TT = TetTopology;
                    auto vl = [&](VertexHandle v, TT::VertexLabel L) { auto g = t.get_label(v); if (!g || *g != L) bad("get_label(vertex)"); };
                    vl(t.a(), TT::A); vl(t.b(), TT::B); vl(t.c(), TT::C); vl(t.d(), TT::D);
                    auto hl = [&](HalfEdgeHandle h, TT::HalfEdgeLabel L) { auto g = t.get_label(h); if (!g || *g != L) bad("get_label(halfedge)"); };
                    hl(t.ab(), TT::AB); hl(t.bc(), TT::BC); hl(t.ca(), TT::CA); hl(t.cd(), TT::CD); hl(t.ad(), TT::AD); hl(t.bd(), TT::BD);
                    hl(t.ba(), TT::BA); hl(t.cb(), TT::CB); hl(t.ac(), TT::AC); hl(t.dc(), TT::DC); hl(t.da(), TT::DA); hl(t.db(), TT::DB);
                    auto fl = [&](HalfFaceHandle h, TT::HalfFaceLabel L) { auto g = t.get_label(h); if (!g || *g != L) bad("get_label(halfface)"); };
                    fl(t.abc(), TT::OppD); fl(t.bdc(), TT::OppA); fl(t.acd(), TT::OppB); fl(t.adb(), TT::OppC);
                    fl(t.acb(), TT::OuterOppD); fl(t.bcd(), TT::OuterOppA); fl(t.adc(), TT::OuterOppB); fl(t.abd(), TT::OuterOppC);
                    auto fl2 = [&](HalfFaceHandle h, VertexHandle first, TT::HalfFaceLabel L) { auto g = t.get_label(h, first); if (!g || *g != L) bad("get_label(halfface, first vertex)"); };
                    fl2(t.abc(), t.a(), TT::ABC); fl2(t.abc(), t.b(), TT::BCA); fl2(t.abc(), t.c(), TT::CAB);
                    fl2(t.bdc(), t.b(), TT::BDC); fl2(t.bdc(), t.d(), TT::DCB); fl2(t.acd(), t.c(), TT::CDA); fl2(t.adb(), t.d(), TT::DBA);
                    fl2(t.acb(), t.a(), TT::ACB); fl2(t.bcd(), t.c(), TT::CDB);
                    if (t.get_label(VertexHandle(b.nv + 5))) bad("get_label of a foreign vertex");
                    // triangle topology
                    TriangleTopology tr = t.triangle_topology(TT::ABC);
                    if (tr.a() != t.a() || tr.b() != t.b() || tr.c() != t.c() || tr.ab() != t.ab() || tr.bc() != t.bc() || tr.ca() != t.ca()) bad("triangle_topology(ABC)");
                    TriangleTopology tr2 = t.triangle_topology(TT::DCB);
                    if (tr2.a() != t.d() || tr2.b() != t.c() || tr2.c() != t.b() || tr2.ab() != t.dc() || tr2.bc() != t.cb() || tr2.ca() != t.bd()) bad("triangle_topology(DCB)");
                    TriangleTopology tr3 = t.triangle_topology(TT::BAC);
                    if (tr3.a() != t.b() || tr3.b() != t.a() || tr3.c() != t.c() || tr3.ab() != t.ba() || tr3.bc() != t.ac() || tr3.ca() != t.cb()) bad("triangle_topology(BAC)");
                    {   // all 24 halfface labels, run-time and compile-time overloads: a=X, b=Y, c=Z and the halfedges join them
                        auto V = [&](char ch) { return ch == 'A' ? a : ch == 'B' ? bb : ch == 'C' ? cc : d; };
                        auto tri = [&](const TriangleTopology &q, const TriangleTopology &q2, const char *L) {
                            int x = V(L[0]), y = V(L[1]), z = V(L[2]);
                            if (q.a().idx() != x || q.b().idx() != y || q.c().idx() != z) bad(std::string("triangle_topology(") + L + ") vertices " + std::to_string(q.a().idx()) + "," + std::to_string(q.b().idx()) + "," + std::to_string(q.c().idx()));
                            auto hechk = [&](HalfEdgeHandle h, int u, int w2) { return h.is_valid() && h.idx() < 2 * b.ne && b.elive[h.idx() / 2] && b.from(h.idx()) == u && b.to(h.idx()) == w2; };
                            if (!hechk(q.ab(), x, y) || !hechk(q.bc(), y, z) || !hechk(q.ca(), z, x)) bad(std::string("triangle_topology(") + L + ") halfedges");
                            if (!(q == q2)) bad(std::string("triangle_topology<") + L + ">() differs from triangle_topology(" + L + ")");
                        };
                        tri(t.triangle_topology(TT::BDC), t.template triangle_topology<TT::BDC>(), "BDC");
                        tri(t.triangle_topology(TT::CBD), t.template triangle_topology<TT::CBD>(), "CBD");
                        tri(t.triangle_topology(TT::DCB), t.template triangle_topology<TT::DCB>(), "DCB");
                        tri(t.triangle_topology(TT::ACD), t.template triangle_topology<TT::ACD>(), "ACD");
                        tri(t.triangle_topology(TT::CDA), t.template triangle_topology<TT::CDA>(), "CDA");
                        tri(t.triangle_topology(TT::DAC), t.template triangle_topology<TT::DAC>(), "DAC");
                        tri(t.triangle_topology(TT::ADB), t.template triangle_topology<TT::ADB>(), "ADB");
                        tri(t.triangle_topology(TT::BAD), t.template triangle_topology<TT::BAD>(), "BAD");
                        tri(t.triangle_topology(TT::DBA), t.template triangle_topology<TT::DBA>(), "DBA");
                        tri(t.triangle_topology(TT::ABC), t.template triangle_topology<TT::ABC>(), "ABC");
                        tri(t.triangle_topology(TT::BCA), t.template triangle_topology<TT::BCA>(), "BCA");
                        tri(t.triangle_topology(TT::CAB), t.template triangle_topology<TT::CAB>(), "CAB");
                        tri(t.triangle_topology(TT::BCD), t.template triangle_topology<TT::BCD>(), "BCD");
                        tri(t.triangle_topology(TT::CDB), t.template triangle_topology<TT::CDB>(), "CDB");
                        tri(t.triangle_topology(TT::DBC), t.template triangle_topology<TT::DBC>(), "DBC");
                        tri(t.triangle_topology(TT::ADC), t.template triangle_topology<TT::ADC>(), "ADC");
                        tri(t.triangle_topology(TT::CAD), t.template triangle_topology<TT::CAD>(), "CAD");
                        tri(t.triangle_topology(TT::DCA), t.template triangle_topology<TT::DCA>(), "DCA");
                        tri(t.triangle_topology(TT::ABD), t.template triangle_topology<TT::ABD>(), "ABD");
                        tri(t.triangle_topology(TT::BDA), t.template triangle_topology<TT::BDA>(), "BDA");
                        tri(t.triangle_topology(TT::DAB), t.template triangle_topology<TT::DAB>(), "DAB");
                        tri(t.triangle_topology(TT::ACB), t.template triangle_topology<TT::ACB>(), "ACB");
                        tri(t.triangle_topology(TT::BAC), t.template triangle_topology<TT::BAC>(), "BAC");
                        tri(t.triangle_topology(TT::CBA), t.template triangle_topology<TT::CBA>(), "CBA");
                    }
                    TriangleTopology direct(m, HalfFaceHandle(hf), VertexHandle(a));
                    if (!(direct == tr)) bad("TriangleTopology(mesh, hf, a) differs from TetTopology::triangle_topology<ABC>");
                    ++n;
                }
            }
        }
        // cell-level accessors
        {
            int hf0 = b.C[c][0];
            if (b.cellof[hf0] == c) {
                std::vector<int> cyc, got; for (int h : b.hf_hes(hf0)) cyc.push_back(b.from(h));
                std::vector<int> want = cyc; want.push_back(apex_of(cyc));
                for (auto v : m.get_cell_vertices(ch)) got.push_back(v.idx());
                if (got != want) ctx.fail(OW, "get_cell_vertices-cell", w + " got " + vec_str(got) + " expected " + vec_str(want));
                std::vector<int> tv = drain(m.tv_iter(ch));
                if (tv != want) ctx.fail(OW, "tet-vertex-iter", w + " got " + vec_str(tv) + " expected " + vec_str(want));
                CircCheck cc{ctx, st};
                cc.OW = OW;
                cc.run("tv", w, [&](int l) { return m.tv_iter(ch, l); }, [&](int l) { return m.tet_vertices(ch, l); }, want, true, true);
                for (int v : vs) {
                    got.clear();
                    for (auto x : m.get_cell_vertices(ch, VertexHandle(v))) got.push_back(x.idx());
                    bool ok = got.size() == 4 && got[0] == v && std::set<int>(got.begin(), got.end()) == vs;
                    if (ok) { bool face = false; for (int hf : b.C[c]) { std::vector<int> cy; for (int h : b.hf_hes(hf)) cy.push_back(b.from(h)); if (cyc_equal(cy, {got[0], got[1], got[2]})) face = true; } ok = face; }
                    if (!ok) ctx.fail(OW, "get_cell_vertices-cell-vertex", w + " start " + std::to_string(v) + " got " + vec_str(got));
                    TetTopology t(m, ch, VertexHandle(v));
                    if (t.a().idx() != v || std::set<int>{t.a().idx(), t.b().idx(), t.c().idx(), t.d().idx()} != vs) ctx.fail(OW, "tettopology", w + " TetTopology(mesh, cell, a)");
                }
                TetTopology t0(m, ch);
                if (std::set<int>{t0.a().idx(), t0.b().idx(), t0.c().idx(), t0.d().idx()} != vs || t0.abc().idx() != hf0) ctx.fail(OW, "tettopology", w + " TetTopology(mesh, cell)");
            }
        }
    }
    st.add("c15_label_tables_checked", n);
    if (n > 0) st.nt(digest);
    int livec = 0; for (char x : b.clive) livec += x;
    if (livec >= 2) st.add("probe_c15_multi_cell");
}

// ------------------------------------------------------------------ C16
template <class M> void battery_c16(const M &m, const Ctx &ctx, RunStats &st, uint64_t digest) {
    const std::vector<std::string> OW = {"C16"};
    using HK = HexahedralMeshTopologyKernel;
    Brute b = brute_of(m);
    long n = 0;
    // orthogonal_orientation agrees with the axis layout (cross product of signed axes)
    for (int o1 = 0; o1 < 6; ++o1) for (int o2 = 0; o2 < 6; ++o2) {
        unsigned char got = HK::orthogonal_orientation((unsigned char)o1, (unsigned char)o2);
        if (o1 / 2 == o2 / 2) { if (got != HK::INVALID) ctx.fail(OW, "orthogonal_orientation", "parallel axes must be invalid"); continue; }
        int a1 = o1 / 2, a2 = o2 / 2, s1 = (o1 & 1) ? -1 : 1, s2 = (o2 & 1) ? -1 : 1;
        int a3 = 3 - a1 - a2;
        int sign = ((a1 + 1) % 3 == a2) ? 1 : -1;
        int s3 = s1 * s2 * sign;
        unsigned char want = (unsigned char)(2 * a3 + (s3 < 0 ? 1 : 0));
        if (got != want) ctx.fail(OW, "orthogonal_orientation", std::to_string(o1) + "," + std::to_string(o2));
        if (HK::opposite_orientation((unsigned char)o1) != (o1 ^ 1)) ctx.fail(OW, "orthogonal_orientation", "opposite_orientation");
    }
    for (int f = 0; f < b.nf; ++f) if (b.flive[f] && b.F[f].size() != 4) ctx.fail(OW, "shape", "face " + std::to_string(f) + " has " + std::to_string(b.F[f].size()) + " edges");
    const bool fb = m.has_face_bottom_up_incidences();
    for (int c = 0; c < b.nc; ++c) if (b.clive[c]) {
        std::string w = "cell " + std::to_string(c);
        const std::vector<int> &H = b.C[c];
        if (H.size() != 6) ctx.fail(OW, "shape", w + " has " + std::to_string(H.size()) + " faces");
        std::set<int> vs;
        std::vector<std::set<int>> fv(6);
        for (int i = 0; i < 6; ++i) for (int h : b.F[H[i] / 2]) { vs.insert(b.from(h)); fv[i].insert(b.from(h)); }
        if (vs.size() != 8) ctx.fail(OW, "shape", w + " has " + std::to_string(vs.size()) + " distinct vertices");
        for (int k = 0; k < 3; ++k) for (int v : fv[2 * k]) if (fv[2 * k + 1].count(v)) ctx.fail(OW, "layout-opposite-pair", w + ": halffaces " + std::to_string(2 * k) + " and " + std::to_string(2 * k + 1) + " share vertex " + std::to_string(v));
        // walking around the first halfface meets 2,4,3,5 in that cyclic order
        std::map<int, int> owner;
        for (int i = 0; i < 6; ++i) for (int h : b.hf_hes(H[i])) owner[h] = i;
        std::vector<int> seq;
        for (int h : b.hf_hes(H[0])) { auto it = owner.find(h ^ 1); seq.push_back(it == owner.end() ? -1 : it->second); }
        if (!cyc_equal(seq, {2, 4, 3, 5})) ctx.fail(OW, "layout-handedness", w + ": neighbours around the first halfface are " + vec_str(seq) + ", expected a rotation of [2,4,3,5]");
        CellHandle ch(c);
        for (int i = 0; i < 6; ++i) {
            HalfFaceHandle hf(H[i]);
            if (m.orientation(hf, ch) != i) ctx.fail(OW, "orientation", w + " halfface " + std::to_string(H[i]));
            if (m.opposite_halfface_handle_in_cell(hf, ch).idx() != H[i ^ 1]) ctx.fail(OW, "opposite-in-cell", w + " halfface " + std::to_string(H[i]));
            if (m.get_oriented_halfface((unsigned char)i, ch).idx() != H[i]) ctx.fail(OW, "accessors", w + " get_oriented_halfface");
        }
        if (m.orientation(HalfFaceHandle(H[0] ^ 1), ch) != HK::INVALID && std::find(H.begin(), H.end(), H[0] ^ 1) == H.end()) ctx.fail(OW, "orientation", "foreign halfface must be INVALID");
        if (m.xfront_halfface(ch).idx() != H[0] || m.xback_halfface(ch).idx() != H[1] || m.yfront_halfface(ch).idx() != H[2] || m.yback_halfface(ch).idx() != H[3] || m.zfront_halfface(ch).idx() != H[4] || m.zback_halfface(ch).idx() != H[5]) ctx.fail(OW, "accessors", w);
        if (!fb) continue;
        bool all_mine = true;
        for (int hf : H) if (b.cellof[hf] != c) all_mine = false;
        if (!all_mine) continue;
        // hex_vertices: cube pattern up to a rotation about the first axis
        std::vector<int> hv = drain(m.hv_iter(ch));
        {
            std::set<int> s(hv.begin(), hv.end());
            if (hv.size() != 8 || s != vs) ctx.fail(OW, "hex_vertices", w + " got " + vec_str(hv));
            std::vector<int> c0; for (int h : b.hf_hes(H[0])) c0.push_back(b.from(h));
            std::vector<int> first(hv.begin(), hv.begin() + 4), rev(c0.rbegin(), c0.rend());
            // against the cyclic order, starting at the source of the first halfedge
            std::vector<int> want = {c0[0], c0[3], c0[2], c0[1]};
            if (first != want) ctx.fail(OW, "hex_vertices", w + " first four " + vec_str(first) + " expected " + vec_str(want));
            std::set<int> last(hv.begin() + 4, hv.end());
            if (last != fv[1]) ctx.fail(OW, "hex_vertices", w + " last four are not the opposite halfface's vertices");
            auto joined = [&](int x, int y) { for (auto &kv : owner) { int h = kv.first; if ((b.from(h) == x && b.to(h) == y)) return true; } return false; };
            static const int pr[4][2] = {{0, 4}, {1, 7}, {2, 6}, {3, 5}};
            for (auto &p : pr) if (!joined(hv[p[0]], hv[p[1]])) ctx.fail(OW, "hex_vertices", w + " positions " + std::to_string(p[0]) + " and " + std::to_string(p[1]) + " (" + std::to_string(hv[p[0]]) + "," + std::to_string(hv[p[1]]) + ") are not joined by an edge of the cell; got " + vec_str(hv));
            // the last four run around the opposite halfface
            std::vector<int> c1; for (int h : b.hf_hes(H[1])) c1.push_back(b.from(h));
            std::vector<int> l4(hv.begin() + 4, hv.end()), l4r(l4.rbegin(), l4.rend());
            if (!cyc_equal(l4, c1) && !cyc_equal(l4r, c1)) ctx.fail(OW, "hex_vertices", w + " last four " + vec_str(l4) + " do not run around the opposite halfface " + vec_str(c1));
            CircCheck cc{ctx, st};
            cc.OW = OW;
            cc.run("hv", w, [&](int l) { return m.hv_iter(ch, l); }, [&](int l) { return m.hex_vertices(ch, l); }, hv, true, true);
        }
        // sheet circulators
        for (int d = 0; d < 6; ++d) {
            std::vector<int> want;
            for (int i = 0; i < 6; ++i) if (i / 2 != d / 2 && b.cellof[H[i] ^ 1] >= 0) want.push_back(b.cellof[H[i] ^ 1]);
            std::vector<int> got = drain(m.csc_iter(ch, (unsigned char)d));
            if (sorted(got) != uniq(want)) ctx.fail(OW, "cell-sheet-cells", w + " direction " + std::to_string(d) + " got " + vec_str(got) + " expected " + vec_str(uniq(want)));
            CircCheck cc{ctx, st};
            cc.OW = OW;
            cc.run("csc", w, [&](int l) { return m.csc_iter(ch, (unsigned char)d, l); }, [&](int l) { return m.cell_sheet_cells(ch, (unsigned char)d, l); }, uniq(want), false, true);
            if (!want.empty()) st.add("probe_c16_sheet_neighbour");
        }
        for (int i = 0; i < 6; ++i) {
            // matching halffaces of the neighbours across the four orthogonal halffaces
            std::vector<int> want;
            bool simple = true;
            for (int h : b.hf_hes(H[i])) {
                auto it = owner.find(h ^ 1);
                if (it == owner.end()) { simple = false; break; }
                int g = H[it->second];
                int nb = b.cellof[g ^ 1];
                if (nb < 0) continue;
                if (nb == c) { simple = false; break; }
                int k = -1;
                for (int x : b.C[nb]) { std::vector<int> hs = b.hf_hes(x); if (std::find(hs.begin(), hs.end(), h ^ 1) != hs.end()) k = x; }
                if (k >= 0) want.push_back(k);
                // adjacent_halfface_on_sheet along this halfedge gives the same halfface
                HalfFaceHandle adj = m.adjacent_halfface_on_sheet(HalfFaceHandle(H[i]), HalfEdgeHandle(h));
                if (k >= 0 && adj.idx() != k) ctx.fail(OW, "adjacent-on-sheet", w + " halfface " + std::to_string(H[i]) + " halfedge " + std::to_string(h) + " got " + std::to_string(adj.idx()) + " expected " + std::to_string(k));
            }
            if (!simple) continue;
            // a neighbour reached across two orthogonal faces would be listed once by the circulator (it walks neighbours, not edges)
            std::vector<int> got = drain(m.hfshf_iter(HalfFaceHandle(H[i])));
            std::set<int> nbs; bool dupnb = false;
            for (int x : want) { int nbc = b.cellof[x]; if (!nbs.insert(nbc).second) dupnb = true; }
            // irregular neighbourhoods (a neighbour touching the halfface along more than one edge): "the matching halfface" is not unique
            size_t touching = 0;
            { std::set<int> nbset; for (int x : want) nbset.insert(b.cellof[x]);
              for (int nbc : nbset) for (int x : b.C[nbc]) { bool hit = false; for (int hh : b.hf_hes(x)) for (int own : b.hf_hes(H[i])) if (hh == (own ^ 1)) hit = true; if (hit) ++touching; } }
            if (touching != want.size()) { st.add("c16_irregular_sheet_skipped"); continue; }
            if (!dupnb && sorted(got) != sorted(want)) ctx.fail(OW, "halfface-sheet-halffaces", w + " halfface " + std::to_string(H[i]) + " got " + vec_str(got) + " expected " + vec_str(want));
            ++n;
        }
    }
    st.add("c16_cells_checked", n);
    if (n > 0) st.nt(digest);
}

}  // namespace sim
