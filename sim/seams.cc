// Seams: global allocator, step clock (trace-pc-guard callback), writer-buffer knob (link-time wrap),
// sanitizer default options.
#include "seams.hh"
#include <cstdio>
#include <cstdlib>
#include <new>
#include <unistd.h>
#include <cerrno>
#include <cstring>
#include <sys/syscall.h>
#include <sys/uio.h>

namespace sim {
AllocSeam g_alloc;
StepClock g_clock;
size_t g_writebuf_knob = 4096;
void (*g_on_nontermination)() = nullptr;

void alloc_arm(long fail_at, size_t cap) {
    g_alloc.fail_at = fail_at; g_alloc.count = 0; g_alloc.per_request_cap = cap; g_alloc.active = true;
}
void alloc_disarm() { g_alloc.active = false; g_alloc.fail_at = -1; g_alloc.per_request_cap = (size_t)256 << 20; }
void clock_arm(uint64_t budget) {
    g_clock.steps = 0; g_clock.budget = budget; g_clock.last_progress_step = 0; g_clock.expired = false;
    g_clock.seen_token = g_clock.progress_token;
}
void clock_disarm() { g_clock.budget = 0; }
SysSeam g_sys;
void sys_arm(const char *path, long enospc_after, long read_eio_after, bool close_fails) {
    g_sys = SysSeam();
    strncpy(g_sys.path, path, sizeof g_sys.path - 1);
    g_sys.enospc_after = enospc_after; g_sys.read_eio_after = read_eio_after; g_sys.close_fails = close_fails;
    g_sys.active = true;
}
void sys_disarm() { g_sys.active = false; g_sys.fd_cache = -1; }
static bool sys_is_target(int fd) {
    if (!g_sys.active || fd < 3) return false;
    if (fd == g_sys.fd_cache) return true;
    char link[64], buf[300];
    snprintf(link, sizeof link, "/proc/self/fd/%d", fd);
    long n = syscall(SYS_readlink, link, buf, sizeof buf - 1);
    if (n <= 0) return false;
    buf[n] = 0;
    if (strcmp(buf, g_sys.path) != 0) return false;
    g_sys.fd_cache = fd;
    return true;
}
}  // namespace sim

using sim::g_alloc;

static inline void *sim_alloc(size_t n, size_t align, bool nothrow) {
    ++sim::g_clock.progress_token;   // allocation counts as progress for the liveness rule
    if (g_alloc.active) {
        ++g_alloc.count;
        if (n > g_alloc.per_request_cap || (g_alloc.fail_at >= 0 && g_alloc.count == g_alloc.fail_at)) {
            ++g_alloc.refused;
            if (nothrow) return nullptr;
            throw std::bad_alloc();
        }
    } else if (n > ((size_t)1 << 32)) {
        if (nothrow) return nullptr;
        throw std::bad_alloc();
    }
    void *p = nullptr;
    if (align > alignof(std::max_align_t)) {
        if (posix_memalign(&p, align, n ? n : 1) != 0) p = nullptr;
    } else {
        p = malloc(n ? n : 1);
    }
    if (!p) {
        if (nothrow) return nullptr;
        throw std::bad_alloc();
    }
    return p;
}

#ifndef OVMSIM_VARIANT_PLAIN
void *operator new(size_t n) { return sim_alloc(n, 0, false); }
void *operator new[](size_t n) { return sim_alloc(n, 0, false); }
void *operator new(size_t n, const std::nothrow_t &) noexcept { return sim_alloc(n, 0, true); }
void *operator new[](size_t n, const std::nothrow_t &) noexcept { return sim_alloc(n, 0, true); }
void *operator new(size_t n, std::align_val_t a) { return sim_alloc(n, (size_t)a, false); }
void *operator new[](size_t n, std::align_val_t a) { return sim_alloc(n, (size_t)a, false); }
void operator delete(void *p) noexcept { free(p); }
void operator delete[](void *p) noexcept { free(p); }
void operator delete(void *p, size_t) noexcept { free(p); }
void operator delete[](void *p, size_t) noexcept { free(p); }
void operator delete(void *p, std::align_val_t) noexcept { free(p); }
void operator delete[](void *p, std::align_val_t) noexcept { free(p); }
void operator delete(void *p, size_t, std::align_val_t) noexcept { free(p); }
void operator delete[](void *p, size_t, std::align_val_t) noexcept { free(p); }
void operator delete(void *p, const std::nothrow_t &) noexcept { free(p); }
void operator delete[](void *p, const std::nothrow_t &) noexcept { free(p); }
#endif

// ---- step clock: simulated time = instrumented edges executed inside the reader/writer TUs
extern "C" void __sanitizer_cov_trace_pc_guard_init(uint32_t *start, uint32_t *stop) {
    for (uint32_t *x = start; x < stop; ++x) if (!*x) *x = ++sim::g_clock.nguards;
}
extern "C" void __sanitizer_cov_trace_pc_guard(uint32_t *) {
    sim::StepClock &c = sim::g_clock;
    ++c.steps;
    if (c.budget && c.steps > c.budget && !c.expired) {
        // liveness: only a budget overrun *without progress in the trailing quarter* counts
        if (c.progress_token != c.seen_token) { c.seen_token = c.progress_token; c.last_progress_step = c.steps; }
        if (c.steps - c.last_progress_step > c.budget / 4) {
            c.expired = true;
            if (sim::g_on_nontermination) sim::g_on_nontermination();
        } else if ((c.steps & 0xfff) == 0) {
            // still making progress: keep going, but never forever (expensive-but-live inputs are cut by the driver)
            if (c.steps > c.budget * 64) { c.expired = true; if (sim::g_on_nontermination) sim::g_on_nontermination(); }
        }
    } else if (c.budget && (c.steps & 0x3ff) == 0) {
        if (c.progress_token != c.seen_token) { c.seen_token = c.progress_token; c.last_progress_step = c.steps; }
    }
}

// ---- writer tuning knob: BinaryFileWriter pre-allocates 100 MiB so WriteBuffer::need never has to grow.
extern "C" void __real__ZN14OpenVolumeMesh2IO6detail11WriteBuffer4needEm(void *self, size_t n);
extern "C" void __wrap__ZN14OpenVolumeMesh2IO6detail11WriteBuffer4needEm(void *self, size_t n) {
    if (n == (size_t)1024 * 1024 * 100 && sim::g_writebuf_knob) n = sim::g_writebuf_knob;
    __real__ZN14OpenVolumeMesh2IO6detail11WriteBuffer4needEm(self, n);
}

// ---- sanitizer options (non-inline, used: `extern "C" inline` is never emitted)
extern "C" __attribute__((used, visibility("default"))) const char *__asan_default_options() {
    return "exitcode=77:detect_leaks=0:allocator_may_return_null=1:abort_on_error=0:handle_abort=1:"
           "detect_container_overflow=1:symbolize=1:print_summary=1:malloc_context_size=8:max_allocation_size_mb=4096";
}
extern "C" __attribute__((used, visibility("default"))) const char *__ubsan_default_options() {
    return "exitcode=77:print_stacktrace=1:halt_on_error=1";
}

#ifndef OVMSIM_VARIANT_PLAIN
// ---- syscall seam (path overloads)
extern "C" ssize_t write(int fd, const void *buf, size_t n) {
    using namespace sim;
    if (sys_is_target(fd) && g_sys.enospc_after >= 0) {
        long room = g_sys.enospc_after - g_sys.written;
        if (room <= 0) { ++g_sys.fired_enospc; errno = ENOSPC; return -1; }
        if ((long)n > room) { n = (size_t)room; ++g_sys.short_writes; }
    }
    long r = syscall(SYS_write, fd, buf, n);
    if (r > 0 && sys_is_target(fd)) g_sys.written += r;
    return r;
}
extern "C" ssize_t writev(int fd, const struct iovec *iov, int cnt) {
    using namespace sim;
    if (sys_is_target(fd) && g_sys.enospc_after >= 0) {
        // deliver piecewise through write() so that the budget applies byte-exactly
        ssize_t total = 0;
        for (int i = 0; i < cnt; ++i) {
            ssize_t r = write(fd, iov[i].iov_base, iov[i].iov_len);
            if (r < 0) return total > 0 ? total : -1;
            total += r;
            if ((size_t)r < iov[i].iov_len) break;
        }
        return total;
    }
    long r = syscall(SYS_writev, fd, iov, cnt);
    if (r > 0 && sys_is_target(fd)) g_sys.written += r;
    return r;
}
extern "C" ssize_t read(int fd, void *buf, size_t n) {
    using namespace sim;
    if (sys_is_target(fd) && g_sys.read_eio_after >= 0) {
        long room = g_sys.read_eio_after - g_sys.delivered;
        if (room <= 0) { ++g_sys.fired_eio; errno = EIO; return -1; }
        if ((long)n > room) n = (size_t)room;
    }
    long r = syscall(SYS_read, fd, buf, n);
    if (r > 0 && sys_is_target(fd)) g_sys.delivered += r;
    return r;
}
extern "C" int close(int fd) {
    using namespace sim;
    bool target = sys_is_target(fd);
    long r = syscall(SYS_close, fd);
    if (target) { g_sys.fd_cache = -1; if (g_sys.close_fails) { ++g_sys.fired_close; errno = EIO; return -1; } }
    return (int)r;
}
#endif
