#!/bin/sh
# try_mutant.sh <patch.diff> <budget-seconds> <prop> [<prop> ...]
# Applies a seeded change to a scratch worktree of /repo (never to /repo itself), runs the named checks against that
# tree (VERIF_REPO), and removes the worktree afterwards.
patch=$(realpath "$1"); budget="$2"; shift 2
cd /verif
MR=/tmp/ovm_mutrepo_$$
git -C /repo worktree add -q --detach "$MR" HEAD || exit 3
trap 'git -C /repo worktree remove --force "$MR"; git -C /repo worktree prune; rm -rf /tmp/mut_ev_$$ /tmp/mut_rp_$$' EXIT
if ! git -C "$MR" apply --check "$patch" 2>/dev/null; then
    if ! git -C "$MR" apply -3 "$patch" 2>/dev/null; then echo "PATCH DOES NOT APPLY: $patch"; exit 3; fi
else
    git -C "$MR" apply "$patch"
fi
for p in "$@"; do
    out=$(VERIF_REPO="$MR" VERIF_EVIDENCE_DIR=/tmp/mut_ev_$$ VERIF_REPLAY_DIR=/tmp/mut_rp_$$ ./check "$p" --budget "$budget" 2>&1)
    rc=$?
    echo "== $p rc=$rc"
    echo "$out" | grep -E "^VIOLATION|^KNOWN|^NONDET|^SUMMARY|BUILD" | cut -c1-260
    for f in $(echo "$out" | grep -oE "replay=[^ ]+" | head -2 | cut -d= -f2); do [ -f "$f" ] && { echo "--- $f"; grep -E "^cfg|^op|^# detail" "$f" | cut -c1-200; }; done
done
