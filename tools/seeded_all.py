#!/usr/bin/env python3
"""Apply every stored seeded change in turn to a scratch worktree of /repo (never /repo itself), run the check of the
property it breaks against that tree (VERIF_REPO, quick tier, short budget) and report CAUGHT / MISSED / NOAPPLY.
usage: seeded_all.py [budget_seconds] [id-prefix...]"""
import json, os, subprocess, sys, glob
V = os.path.dirname(os.path.dirname(os.path.abspath(__file__)))
budget = sys.argv[1] if len(sys.argv) > 1 else "30"
only = sys.argv[2:]
MR = "/tmp/ovm_mutrepo_%d" % os.getpid()
env = dict(os.environ, VERIF_REPO=MR, VERIF_EVIDENCE_DIR="/tmp/mut_ev_%d" % os.getpid(), VERIF_REPLAY_DIR="/tmp/mut_rp_%d" % os.getpid())
subprocess.run(["git", "-C", "/repo", "worktree", "add", "-q", "--detach", MR, "HEAD"], check=True)
res = []
try:
    for d in sorted(glob.glob(V + "/seeded/*/")):
        mid = os.path.basename(d.rstrip("/"))
        if only and not any(mid.startswith(o) for o in only): continue
        meta = json.load(open(d + "meta.json"))
        prop = meta["breaks_property"]
        ok = subprocess.run(["git", "-C", MR, "apply", d + "patch.diff"], capture_output=True).returncode == 0
        if not ok:
            ok = subprocess.run(["git", "-C", MR, "apply", "-3", d + "patch.diff"], capture_output=True).returncode == 0
            subprocess.run(["git", "-C", MR, "reset", "-q"])
        if not ok:
            print(mid, "NOAPPLY", flush=True); res.append((mid, "NOAPPLY"))
            subprocess.run(["git", "-C", MR, "checkout", "--", "."]); continue
        try:
            r = subprocess.run([V + "/check", prop, "--budget", budget], cwd=V, env=env, stdout=subprocess.PIPE, stderr=subprocess.STDOUT, text=True)
            v = [l for l in r.stdout.splitlines() if l.startswith("VIOLATION")]
            st = "CAUGHT" if (r.returncode == 1 and v) else "MISSED rc=%d" % r.returncode
            print(mid, prop, st, (v[0].split("class=")[1][:90] if v and "class=" in v[0] else ""), flush=True)
            res.append((mid, st))
        finally:
            subprocess.run(["git", "-C", MR, "checkout", "--", "."])
finally:
    subprocess.run(["git", "-C", "/repo", "worktree", "remove", "--force", MR])
    subprocess.run(["git", "-C", "/repo", "worktree", "prune"])
    subprocess.run(["rm", "-rf", env["VERIF_EVIDENCE_DIR"], env["VERIF_REPLAY_DIR"]])
bad = [m for m, s in res if s != "CAUGHT"]
print("SEEDED total=%d caught=%d not_caught=%s" % (len(res), len(res) - len(bad), bad))
sys.exit(1 if bad else 0)
