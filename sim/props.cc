#include "props.hh"
#include <OpenVolumeMesh/Core/Properties/PropertyPtr.hh>

namespace sim {
using namespace OpenVolumeMesh;

std::unique_ptr<PropHolderBase> reg_call(ResourceManager &m, int call, int kind, int type, const std::string &name, int defn, bool *ex) {
    switch (kind) {
    case KV: return reg_call_E<Entity::Vertex>(m, call, kind, type, name, defn, ex);
    case KE: return reg_call_E<Entity::Edge>(m, call, kind, type, name, defn, ex);
    case KHE: return reg_call_E<Entity::HalfEdge>(m, call, kind, type, name, defn, ex);
    case KF: return reg_call_E<Entity::Face>(m, call, kind, type, name, defn, ex);
    case KHF: return reg_call_E<Entity::HalfFace>(m, call, kind, type, name, defn, ex);
    case KC: return reg_call_E<Entity::Cell>(m, call, kind, type, name, defn, ex);
    default: return reg_call_E<Entity::Mesh>(m, call, kind, type, name, defn, ex);
    }
}

template <class F> static auto by_kind(int kind, F f) {
    switch (kind) {
    case KV: return f(Entity::Vertex());
    case KE: return f(Entity::Edge());
    case KHE: return f(Entity::HalfEdge());
    case KF: return f(Entity::Face());
    case KHF: return f(Entity::HalfFace());
    case KC: return f(Entity::Cell());
    default: return f(Entity::Mesh());
    }
}
size_t n_props_of(const ResourceManager &m, int kind) {
    return by_kind(kind, [&](auto e) { return m.n_props<decltype(e)>(); });
}
size_t n_persistent_props_of(const ResourceManager &m, int kind) {
    return by_kind(kind, [&](auto e) { return m.n_persistent_props<decltype(e)>(); });
}
void clear_props_of(ResourceManager &m, int kind) {
    by_kind(kind, [&](auto e) { m.clear_props<decltype(e)>(); return 0; });
}

template <class T, class E> static std::unique_ptr<PropHolderBase> try_wrap(BasePropertyPtr *b, int kind, int type) {
    if (auto *p = dynamic_cast<PropertyPtr<T, E> *>(b)) {
        auto h = std::make_unique<PropHolder<T, E>>(*p);
        h->kind = kind; h->type = type;
        return h;
    }
    return nullptr;
}
template <class E> static std::unique_ptr<PropHolderBase> wrap_E(BasePropertyPtr *b, int kind) {
    if (auto h = try_wrap<int, E>(b, kind, TInt)) return h;
    if (auto h = try_wrap<bool, E>(b, kind, TBool)) return h;
    if (auto h = try_wrap<double, E>(b, kind, TDouble)) return h;
    if (auto h = try_wrap<std::string, E>(b, kind, TString)) return h;
    if (auto h = try_wrap<Vec3d, E>(b, kind, TVec)) return h;
    return nullptr;
}
std::unique_ptr<PropHolderBase> holder_from_storage(PropertyStorageBase *s) {
    auto b = s->make_property_ptr();
    int kind = (int)s->entity_type();
    return by_kind(kind, [&](auto e) { return wrap_E<decltype(e)>(b.get(), kind); });
}
std::vector<PersistentInfo> list_persistent(const ResourceManager &m) {
    std::vector<PersistentInfo> r;
    for (int k = 0; k < 7; ++k)
        by_kind(k, [&](auto e) {
            using E = decltype(e);
            for (auto it = m.persistent_props_begin<E>(); it != m.persistent_props_end<E>(); ++it) {
                PropertyStorageBase *s = *it;
                r.push_back({k, s->name(), s->internal_type_name(), s});
            }
            return 0;
        });
    std::sort(r.begin(), r.end(), [](const PersistentInfo &a, const PersistentInfo &b) {
        if (a.kind != b.kind) return a.kind < b.kind;
        if (a.name != b.name) return a.name < b.name;
        return a.type_name < b.type_name;
    });
    return r;
}
}  // namespace sim
