#include "hist_fault_ops.hh"
namespace sim { RunResult hist_execute_tet(const Plan &p) { RunResult r; { HistRun<TetMesh> h(p, r.st); RunResult x = h.run(); x.st = std::move(r.st); return x; } } }
