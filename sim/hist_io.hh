// Checkpointer client: save / load through the simulated storage. C06 (round trips, independent decoder, legal
// re-encodings, type detection, pending deletions), C07 (safety/liveness/validity under stored-byte and allocator
// faults), C18 (truncation, framing corruption, stream failures: per-image sweeps).
#pragma once
#include <fstream>
#include <unistd.h>
#include <OpenVolumeMesh/IO/ovmb_read.hh>
#include <OpenVolumeMesh/IO/ovmb_write.hh>
#include <OpenVolumeMesh/IO/IO.hh>
#include <OpenVolumeMesh/FileManager/FileManager.hh>
#include "hist_more.hh"
#include "ovmb_indep.hh"
#include "simstream.hh"

namespace sim {

// ------------------------------------------------------------------ canonical bytes of property values (little endian)
template <class T, class = void> struct Canon;
template <class T> struct Canon<T, std::enable_if_t<std::is_arithmetic_v<T> && !std::is_same_v<T, bool>>> {
    static std::string enc(const T &v) { std::string s(sizeof(T), '\0'); memcpy(&s[0], &v, sizeof(T)); return s; }
    static T gen(Rng &r, int special) {
        if constexpr (std::is_floating_point_v<T>) {
            switch (special % 9) {
            case 0: return (T)0.0; case 1: return (T)-0.0; case 2: return std::numeric_limits<T>::infinity(); case 3: return -std::numeric_limits<T>::infinity();
            case 4: return std::numeric_limits<T>::denorm_min(); case 5: { T x; if constexpr (sizeof(T) == 4) { uint32_t u = 0x7fc01234u; memcpy(&x, &u, 4); } else { uint64_t u = 0x7ff8000000abcdefULL; memcpy(&x, &u, 8); } return x; }
            case 6: return std::numeric_limits<T>::max(); default: return (T)((double)(long)(r.below(2000001)) / 64.0 - 15000.0);
            }
        } else {
            switch (special % 5) { case 0: return std::numeric_limits<T>::min(); case 1: return std::numeric_limits<T>::max(); case 2: return (T)0; default: return (T)r.next(); }
        }
    }
    static T gen_text(Rng &r, int) {   // values the text format can denote exactly with 6 significant digits
        if constexpr (std::is_floating_point_v<T>) return (T)((double)((long)r.below(4001) - 2000) / 8.0);
        else if constexpr (sizeof(T) == 1) return (T)('!' + r.below(90));
        else return (T)(r.below(2) ? r.below(30000) : (std::is_signed_v<T> ? -(long)r.below(30000) : (long)r.below(30000)));
    }
};
template <> struct Canon<bool> {
    static std::string enc(bool v) { return std::string(1, (char)(v ? 1 : 0)); }
    static bool gen(Rng &r, int) { return r.below(2); }
    static bool gen_text(Rng &r, int) { return r.below(2); }
};
template <> struct Canon<std::string> {
    static std::string enc(const std::string &v) { return v; }
    static std::string gen(Rng &r, int special) {
        switch (special % 6) { case 0: return ""; case 1: return std::string("a\0b", 3); case 2: return "\xc3\xa4\xe2\x82\xac utf8"; case 3: return "line\nbreak\ttab \"quoted\""; default: { std::string s; for (int i = 0, n = (int)r.below(12); i < n; ++i) s.push_back((char)r.below(256)); return s; } }
    }
    // the text format stores strings as "<size>:<bytes>", so arbitrary bytes (NUL, blanks, line breaks, ':') are representable
    static std::string gen_text(Rng &r, int special) { if (special % 3 == 2) return gen(r, special / 3); if (special % 5 == 0) return ""; std::string s; for (int i = 0, n = 1 + (int)r.below(9); i < n; ++i) s.push_back((char)('a' + r.below(26))); if (special % 5 == 1) s += " with blanks"; return s; }
};
template <class H> struct Canon<H, std::enable_if_t<is_handle_v<H>>> {
    static std::string enc(const H &v) { int32_t i = v.idx(); return Canon<int32_t>::enc(i); }
    static H gen(Rng &r, int special) { return special % 4 == 0 ? H(-1) : H((int)r.below(100000)); }
    static H gen_text(Rng &r, int s) { return gen(r, s); }
};
template <class S, int N> struct Canon<Geometry::VectorT<S, N>> {
    using V = Geometry::VectorT<S, N>;
    static std::string enc(const V &v) { std::string s; for (int i = 0; i < N; ++i) s += Canon<S>::enc(v[i]); return s; }
    static V gen(Rng &r, int special) { V v; for (int i = 0; i < N; ++i) v[i] = Canon<S>::gen(r, special + i); return v; }
    static V gen_text(Rng &r, int special) { V v; for (int i = 0; i < N; ++i) v[i] = Canon<S>::gen_text(r, special + i); return v; }
};
template <> struct Canon<std::map<HalfEdgeHandle, int>> {
    using MT = std::map<HalfEdgeHandle, int>;
    static std::string enc(const MT &v) { std::string s; for (auto &kv : v) s += std::to_string(kv.first.idx()) + ":" + std::to_string(kv.second) + ","; return s + "|" + std::to_string(v.size()); }
    static MT gen(Rng &r, int s) { return gen_text(r, s); }
    static MT gen_text(Rng &r, int) { MT v; for (int i = 0, n = (int)r.below(4); i < n; ++i) v[HalfEdgeHandle((int)r.below(50))] = (int)r.below(1000); return v; }
};
template <> struct Canon<std::vector<double>> {
    static std::string enc(const std::vector<double> &v) { std::string s; for (double x : v) s += Canon<double>::enc(x); return s + "|" + std::to_string(v.size()); }
    static std::vector<double> gen(Rng &r, int s) { return gen_text(r, s); }
    static std::vector<double> gen_text(Rng &r, int s) { std::vector<double> v; for (int i = 0, n = (int)r.below(4); i < n; ++i) v.push_back(Canon<double>::gen_text(r, s)); return v; }
};

// what a (T, E) instantiation can do for the checkpointer
enum IoMode { IO_CREATE, IO_READBACK_OVMB, IO_READBACK_ASCII };
struct IoArgs { IoMode mode; Rng *rng; IoRec *rec; std::string err; bool text_values; };

template <class T, class E> void io_prop_TE(ResourceManager &m, size_t n, IoArgs &a) {
    IoRec &rec = *a.rec;
    if (a.mode == IO_CREATE) {
        T def = a.text_values ? T() : Canon<T>::gen(*a.rng, (int)a.rng->below(16));
        auto p = m.request_property<T, E>(rec.name, def);
        m.set_persistent(p);
        rec.def = Canon<T>::enc(p.def());   // an existing property keeps the default it was created with
        rec.elems.clear();
        for (size_t i = 0; i < n; ++i) {
            T v = a.text_values ? Canon<T>::gen_text(*a.rng, (int)a.rng->below(16)) : Canon<T>::gen(*a.rng, (int)a.rng->below(16));
            p[typename PropertyPtr<T, E>::EntityHandleT((int)i)] = v;
            rec.elems.push_back(Canon<T>::enc(v));
        }
        return;
    }
    auto got = m.get_property<T, E>(rec.name);
    if (!got) { a.err = "property '" + rec.name + "' of type " + rec.type + " missing after reading"; return; }
    const PropertyPtr<T, E> &p = *got;
    if (!p.persistent()) { a.err = "property '" + rec.name + "' not persistent after reading"; return; }
    if (p.size() != rec.elems.size()) { a.err = "property '" + rec.name + "' size " + std::to_string(p.size()) + " expected " + std::to_string(rec.elems.size()); return; }
    if (a.mode == IO_READBACK_OVMB && Canon<T>::enc(p.def()) != rec.def) { a.err = "property '" + rec.name + "' default value differs"; return; }
    for (size_t i = 0; i < rec.elems.size(); ++i) {
        T v = p[typename PropertyPtr<T, E>::EntityHandleT((int)i)];
        if (Canon<T>::enc(v) != rec.elems[i]) { a.err = "property '" + rec.name + "' (" + rec.type + ") element " + std::to_string(i) + " differs: " + hex(Canon<T>::enc(v)) + " expected " + hex(rec.elems[i]); return; }
    }
}
template <class T> void io_prop_T(ResourceManager &m, int kind, size_t n, IoArgs &a) {
    switch (kind) {
    case KV: io_prop_TE<T, Entity::Vertex>(m, n, a); break;
    case KE: io_prop_TE<T, Entity::Edge>(m, n, a); break;
    case KHE: io_prop_TE<T, Entity::HalfEdge>(m, n, a); break;
    case KF: io_prop_TE<T, Entity::Face>(m, n, a); break;
    case KHF: io_prop_TE<T, Entity::HalfFace>(m, n, a); break;
    case KC: io_prop_TE<T, Entity::Cell>(m, n, a); break;
    default: io_prop_TE<T, Entity::Mesh>(m, n, a); break;
    }
}
struct IoType { const char *ovmb; const char *ascii; void (*fn)(ResourceManager &, int, size_t, IoArgs &); };
inline const std::vector<IoType> &io_types() {
    using namespace Geometry;
    static const std::vector<IoType> t = {
        {"b", "bool", &io_prop_T<bool>}, {"u8", "uchar", &io_prop_T<uint8_t>}, {"u16", nullptr, &io_prop_T<uint16_t>}, {"u32", "uint", &io_prop_T<uint32_t>},
        {"u64", "ulong", &io_prop_T<uint64_t>}, {"i8", nullptr, &io_prop_T<int8_t>}, {"i16", "short", &io_prop_T<int16_t>}, {"i32", "int", &io_prop_T<int32_t>},
        {"i64", "long", &io_prop_T<int64_t>}, {"f", "float", &io_prop_T<float>}, {"d", "double", &io_prop_T<double>}, {"s32", "string", &io_prop_T<std::string>},
        {"vh", nullptr, &io_prop_T<VH>}, {"eh", nullptr, &io_prop_T<EH>}, {"heh", nullptr, &io_prop_T<HEH>}, {"fh", nullptr, &io_prop_T<FH>}, {"hfh", nullptr, &io_prop_T<HFH>}, {"ch", nullptr, &io_prop_T<CH>},
        {"2d", "vec2d", &io_prop_T<Vec2d>}, {"3d", "vec3d", &io_prop_T<Vec3d>}, {"4d", "vec4d", &io_prop_T<Vec4d>}, {"2f", "vec2f", &io_prop_T<Vec2f>}, {"3f", "vec3f", &io_prop_T<Vec3f>}, {"4f", "vec4f", &io_prop_T<Vec4f>},
        {"2u32", "vec2ui", &io_prop_T<Vec2ui>}, {"3u32", "vec3ui", &io_prop_T<Vec3ui>}, {"4u32", "vec4ui", &io_prop_T<Vec4ui>}, {"2i32", "vec2i", &io_prop_T<Vec2i>}, {"3i32", "vec3i", &io_prop_T<Vec3i>}, {"4i32", "vec4i", &io_prop_T<Vec4i>},
        {nullptr, "char", &io_prop_T<char>}, {nullptr, "vector_double", &io_prop_T<std::vector<double>>}, {nullptr, "map_heh_int", &io_prop_T<std::map<HalfEdgeHandle, int>>},
    };
    return t;
}
inline const IoType *io_type_by_name(const std::string &n) { for (auto &t : io_types()) if ((t.ovmb && n == t.ovmb) || (!t.ovmb && n == std::string("ascii:") + t.ascii)) return &t; return nullptr; }

// ------------------------------------------------------------------ save / load through the simulated storage
struct LoadOutcome { bool ok = false; std::string result; bool threw = false; std::string what; bool bad_exception = false; uint64_t steps = 0; };

template <class SrcMesh> IO::WriteResult save_ovmb(const SrcMesh &m, std::string &image, WriteFaults &wf, IO::WriteOptions wo = IO::WriteOptions()) {
    SimOStreamBuf sb(wf);
    std::ostream os(&sb);
    IO::WriteResult r = IO::ovmb_write(os, m, wo);
    image = sb.image;
    return r;
}
template <class SrcMesh> bool save_ascii(const SrcMesh &m, std::string &image, WriteFaults &wf) {
    SimOStreamBuf sb(wf);
    std::ostream os(&sb);
    IO::FileManager fm;
    fm.setVerbosityLevel(0);
    fm.writeStream(os, m);
    os.flush();
    image = sb.image;
    return os.good();
}
template <class DstMesh> LoadOutcome load_ovmb(const std::string &image, DstMesh &dst, ReadFaults &rf, IO::ReadOptions ro, uint64_t step_budget) {
    LoadOutcome o;
    SimIStreamBuf sb(image, rf);
    std::istream is(&sb);
    clock_arm(step_budget);
    try {
        // same two steps as IO::ovmb_read(std::istream&, ...), kept apart to have the reader's error message for the report
        auto reader = IO::make_ovmb_reader(is, ro, IO::g_default_property_codecs);
        IO::ReadResult r = reader->read_file(dst);
        o.ok = r == IO::ReadResult::Ok;
        o.result = IO::to_string(r);
        if (!o.ok) o.result += " (" + reader->get_error_msg() + ")";
    } catch (const std::bad_alloc &) { o.threw = true; o.what = "bad_alloc"; }
    catch (const std::length_error &) { o.threw = true; o.what = "length_error"; }
    catch (const std::exception &e) { o.threw = true; o.what = std::string("exception:") + e.what(); }
    catch (...) { o.threw = true; o.bad_exception = true; o.what = "non-std exception"; }
    o.steps = g_clock.steps;
    clock_disarm();
    return o;
}
template <class DstMesh> LoadOutcome load_ascii(const std::string &image, DstMesh &dst, ReadFaults &rf, bool topo_check, bool bu, uint64_t step_budget) {
    LoadOutcome o;
    SimIStreamBuf sb(image, rf);
    std::istream is(&sb);
    IO::FileManager fm;
    fm.setVerbosityLevel(0);
    clock_arm(step_budget);
    try {
        o.ok = fm.readStream(is, dst, topo_check, bu);
        o.result = o.ok ? "true" : "false";
    } catch (const std::bad_alloc &) { o.threw = true; o.what = "bad_alloc"; }
    catch (const std::length_error &) { o.threw = true; o.what = "length_error"; }
    catch (const std::exception &e) { o.threw = true; o.what = std::string("exception:") + e.what(); }
    catch (...) { o.threw = true; o.bad_exception = true; o.what = "non-std exception"; }
    o.steps = g_clock.steps;
    clock_disarm();
    return o;
}

// "success means a valid mesh": every stored handle designates an existing entity, every property has one element per entity
template <class M> std::string validity_scan(const M &m) {
    int nv = (int)m.n_vertices(), ne = (int)m.n_edges(), nf = (int)m.n_faces(), nc = (int)m.n_cells();
    for (int e = 0; e < ne; ++e) { const auto &x = m.edge(EdgeHandle(e)); if (x.from_vertex().idx() < 0 || x.from_vertex().idx() >= nv || x.to_vertex().idx() < 0 || x.to_vertex().idx() >= nv) return "edge " + std::to_string(e) + " stores an out-of-range vertex handle"; }
    for (int f = 0; f < nf; ++f) for (auto h : m.face(FaceHandle(f)).halfedges()) if (h.idx() < 0 || h.idx() >= 2 * ne) return "face " + std::to_string(f) + " stores an out-of-range halfedge handle";
    for (int c = 0; c < nc; ++c) for (auto h : m.cell(CellHandle(c)).halffaces()) if (h.idx() < 0 || h.idx() >= 2 * nf) return "cell " + std::to_string(c) + " stores an out-of-range halfface handle";
    if ((int)m.vertex_positions().size() != nv) return "position property has " + std::to_string(m.vertex_positions().size()) + " elements for " + std::to_string(nv) + " vertices";
    size_t want[7] = {(size_t)nv, (size_t)ne, (size_t)2 * ne, (size_t)nf, (size_t)2 * nf, (size_t)nc, 1};
    for (auto &pi : list_persistent(m)) if (pi.st->size() != want[pi.kind]) return "persistent property '" + pi.name + "' has " + std::to_string(pi.st->size()) + " elements for " + std::to_string(want[pi.kind]) + " entities";
    return "";
}

}  // namespace sim
