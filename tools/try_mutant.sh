#!/bin/sh
# try_mutant.sh <patch.diff> <budget-seconds> <prop> [<prop> ...]
# Applies a seeded change to /repo, runs the named checks against it, and always reverts /repo afterwards.
patch=$(realpath "$1"); budget="$2"; shift 2
cd /verif
if ! git -C /repo apply --check "$patch" 2>/dev/null; then echo "PATCH DOES NOT APPLY: $patch"; exit 3; fi
git -C /repo apply "$patch"
trap 'git -C /repo checkout -- . ; rm -rf /tmp/mut_ev /tmp/mut_rp' EXIT
for p in "$@"; do
    out=$(VERIF_EVIDENCE_DIR=/tmp/mut_ev VERIF_REPLAY_DIR=/tmp/mut_rp ./check "$p" --budget "$budget" 2>&1)
    rc=$?
    echo "== $p rc=$rc"
    echo "$out" | grep -E "^VIOLATION|^KNOWN|^NONDET|^SUMMARY|BUILD" | cut -c1-260
    for f in $(echo "$out" | grep -oE "replay=[^ ]+" | head -2 | cut -d= -f2); do [ -f "$f" ] && { echo "--- $f"; grep -E "^cfg|^op|^# detail" "$f" | cut -c1-200; }; done
done
