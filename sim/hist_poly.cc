#include "hist_fault_ops.hh"
namespace sim { RunResult hist_execute_poly(const Plan &p) { RunResult r; { HistRun<PolyMesh> h(p, r.st); RunResult x = h.run(); x.st = std::move(r.st); return x; } } }
