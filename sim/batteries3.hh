// Battery C05: entity iterators and all circulators (sequence, laps, end, back-and-forth, empty centres)
#pragma once
#include "batteries2.hh"

namespace sim {

struct CircCheck {
    const Ctx &ctx;
    RunStats &st;
    std::vector<std::string> OW = {"C05"};
    long n = 0, empties = 0;
    // make(laps) -> circulator ; range(laps) -> pair<circ,circ>
    template <class Make, class Range>
    void run(const std::string &name, const std::string &centre, Make make, Range range, const std::vector<int> &expected, bool exact, bool set_relation) {
        std::vector<int> ref = drain(make(1));
        std::string w = name + " " + centre;
        if (exact ? ref != expected : sorted(ref) != sorted(expected)) ctx.fail(OW, "circ-" + name + "-seq", w + " got " + vec_str(ref) + " expected " + vec_str(expected));
        if (set_relation && has_repeat(ref)) ctx.fail(OW, "circ-" + name + "-seq", w + " repeats an entity " + vec_str(ref));
        ++n;
        if (ref.empty()) {
            ++empties;
            auto it = make(1);
            if (it.valid()) ctx.fail(OW, "circ-" + name + "-empty", w + ": dereferenceable circulator for an empty centre");
            auto pr = range(2);
            if (pr.first != pr.second) ctx.fail(OW, "circ-" + name + "-empty", w + ": begin != end for an empty centre");
            return;
        }
        // every centre gets one lap count (rotating 1,2,3); every 5th centre gets all three
        bool all = (n % 5) == 0;
        for (int laps = 1; laps <= 3; ++laps) {
            if (!all && laps != 1 + (int)(n % 3)) continue;
            std::vector<int> want;
            for (int l = 0; l < laps; ++l) want.insert(want.end(), ref.begin(), ref.end());
            std::vector<int> seq = drain(make(laps));
            if (seq != want) ctx.fail(OW, "circ-" + name + "-laps", w + " max_laps=" + std::to_string(laps) + " got " + vec_str(seq) + " expected " + vec_str(want));
            auto pr = range(laps);
            std::vector<int> rf;
            int guard = 0;
            for (auto it = pr.first; it != pr.second; ++it) { rf.push_back(it->idx()); if (++guard > 10000) break; }
            if (rf != want) ctx.fail(OW, "circ-" + name + "-end", w + " begin/end loop with max_laps=" + std::to_string(laps) + " got " + vec_str(rf) + " expected " + vec_str(want));
            auto adv = make(laps);
            for (size_t i = 0; i < want.size(); ++i) ++adv;
            if (adv.valid() || adv != pr.second) ctx.fail(OW, "circ-" + name + "-end", w + " end circulator != begin advanced past the last lap (max_laps=" + std::to_string(laps) + ")");
            // stepping backward undoes stepping forward
            if (all && want.size() >= 3) {   // it + n, it += n, post-increment agree with n single steps; (it + n) - k undoes k of them
                auto a = make(laps); auto b2 = make(laps);
                size_t nsteps = std::min<size_t>(want.size() - 1, 3);
                for (size_t i = 0; i < nsteps; ++i) ++a;
                auto c = b2 + (int)nsteps;
                if (c != a || c->idx() != a->idx()) ctx.fail(OW, "circ-" + name + "-arith", w + " operator+(" + std::to_string(nsteps) + ")");
                auto d = make(laps); d += (int)nsteps;
                if (d != a) ctx.fail(OW, "circ-" + name + "-arith", w + " operator+=");
                auto e = make(laps); auto e0 = e++;
                if (e0 != make(laps) || e->idx() != want[1]) ctx.fail(OW, "circ-" + name + "-arith", w + " post-increment");
                auto f = c - 1;
                if (f->idx() != want[nsteps - 1] || !f.valid()) ctx.fail(OW, "circ-" + name + "-arith", w + " operator-(1)");
            }
            {   // stepping backward undoes stepping forward (two cursors in lock-step: some circulators are not copy-assignable)
                auto it = make(laps);
                auto nx = make(laps);
                ++nx;
                for (size_t i = 0; i + 1 < want.size() && nx.valid(); ++i) {
                    auto bk = nx; --bk;
                    if (bk != it || bk->idx() != it->idx() || !bk.valid()) ctx.fail(OW, "circ-" + name + "-backforth", w + " at position " + std::to_string(i) + " max_laps=" + std::to_string(laps) + ": --(++it) gives " + std::to_string(bk->idx()) + " expected " + std::to_string(it->idx()));
                    ++it; ++nx;
                }
            }
        }
    }
};

template <class M, class It, class Begin, class End, class Rng>
void entity_iter_check(const M &, const Ctx &ctx, const char *name, It first, Begin b, End e, Rng range, const std::vector<int> &live) {
    const std::vector<std::string> OW = {"C05"};
    std::vector<int> a, c, d;
    int guard = 0;
    for (auto it = b; it != e; ++it) { a.push_back(it->idx()); if (++guard > 100000) break; }
    if (a != live) ctx.fail(OW, std::string("entity-iter-") + name, "begin/end got " + vec_str(a) + " live " + vec_str(live));
    for (auto it = first; it.valid(); ++it) { c.push_back(it->idx()); if (++guard > 200000) break; }
    if (c != live) ctx.fail(OW, std::string("entity-iter-") + name, "iter()/valid() got " + vec_str(c));
    for (auto h : range) d.push_back(h.idx());
    if (d != live) ctx.fail(OW, std::string("entity-iter-") + name, "range-for got " + vec_str(d));
    if (!live.empty()) {
        auto it = b;
        for (size_t i = 0; i + 1 < live.size(); ++i) ++it;
        std::vector<int> back;
        for (; it.valid(); --it) { back.push_back(it->idx()); if (++guard > 300000) break; }
        std::vector<int> want(live.rbegin(), live.rend());
        if (back != want) ctx.fail(OW, std::string("entity-iter-") + name, "backward stepping got " + vec_str(back) + " expected " + vec_str(want));
        // --(++it) == it inside the live range
        auto f = b;
        for (size_t i = 0; i + 1 < live.size(); ++i) { auto nx = f; ++nx; auto bk = nx; --bk; if (bk != f) ctx.fail(OW, std::string("entity-iter-") + name, "--(++it) != it"); f = nx; }
    } else if (first.valid()) ctx.fail(OW, std::string("entity-iter-") + name, "valid iterator on an empty mesh");
}

template <class M> void battery_c05(const M &m, const Ctx &ctx, RunStats &st, uint64_t digest) {
    Brute b = brute_of(m);
    const bool vb = m.has_vertex_bottom_up_incidences(), eb = m.has_edge_bottom_up_incidences(), fb = m.has_face_bottom_up_incidences();
    std::vector<int> lv, le, lhe, lf, lhf, lc;
    for (int i = 0; i < b.nv; ++i) if (b.vlive[i]) lv.push_back(i);
    for (int i = 0; i < b.ne; ++i) if (b.elive[i]) { le.push_back(i); lhe.push_back(2 * i); lhe.push_back(2 * i + 1); }
    for (int i = 0; i < b.nf; ++i) if (b.flive[i]) { lf.push_back(i); lhf.push_back(2 * i); lhf.push_back(2 * i + 1); }
    for (int i = 0; i < b.nc; ++i) if (b.clive[i]) lc.push_back(i);
    entity_iter_check(m, ctx, "vertices", m.v_iter(), m.vertices_begin(), m.vertices_end(), m.vertices(), lv);
    entity_iter_check(m, ctx, "edges", m.e_iter(), m.edges_begin(), m.edges_end(), m.edges(), le);
    entity_iter_check(m, ctx, "halfedges", m.he_iter(), m.halfedges_begin(), m.halfedges_end(), m.halfedges(), lhe);
    entity_iter_check(m, ctx, "faces", m.f_iter(), m.faces_begin(), m.faces_end(), m.faces(), lf);
    entity_iter_check(m, ctx, "halffaces", m.hf_iter(), m.halffaces_begin(), m.halffaces_end(), m.halffaces(), lhf);
    entity_iter_check(m, ctx, "cells", m.c_iter(), m.cells_begin(), m.cells_end(), m.cells(), lc);
    // deleted prefix / middle / suffix probes
    auto prefix_suffix = [&](const std::vector<char> &live, const char *k) {
        if (live.empty()) return;
        bool any_dead = false; for (char c : live) if (!c) any_dead = true;
        if (!any_dead) return;
        if (!live.front()) st.add(std::string("probe_c05_deleted_at_front_") + k);
        if (!live.back()) st.add(std::string("probe_c05_deleted_at_back_") + k);
        for (size_t i = 1; i + 1 < live.size(); ++i) if (!live[i]) { st.add(std::string("probe_c05_deleted_in_middle_") + k); break; }
    };
    prefix_suffix(b.vlive, "v"); prefix_suffix(b.elive, "e"); prefix_suffix(b.flive, "f"); prefix_suffix(b.clive, "c");

    CircCheck cc{ctx, st};
    for (int v : lv) {
        VertexHandle h(v);
        std::string w = "vertex " + std::to_string(v);
        if (vb) {
            std::vector<int> inc, vv, ve;
            for (int x : b.out[v]) { inc.push_back(x ^ 1); vv.push_back(b.to(x)); ve.push_back(x / 2); }
            cc.run("voh", w, [&](int l) { return m.voh_iter(h, l); }, [&](int l) { return m.outgoing_halfedges(h, l); }, b.out[v], false, false);
            cc.run("vih", w, [&](int l) { return m.vih_iter(h, l); }, [&](int l) { return m.incoming_halfedges(h, l); }, inc, false, false);
            cc.run("vv", w, [&](int l) { return m.vv_iter(h, l); }, [&](int l) { return m.vertex_vertices(h, l); }, vv, false, false);
            cc.run("ve", w, [&](int l) { return m.ve_iter(h, l); }, [&](int l) { return m.vertex_edges(h, l); }, ve, false, false);
            if (eb) {
                std::vector<int> vhf, vf, vc;
                for (int x : b.out[v]) for (int hf : b.hfs[x]) { vhf.push_back(hf); vhf.push_back(hf ^ 1); vf.push_back(hf / 2); if (b.cellof[hf] >= 0) vc.push_back(b.cellof[hf]); }
                cc.run("vhf", w, [&](int l) { return m.vhf_iter(h, l); }, [&](int l) { return m.vertex_halffaces(h, l); }, uniq(vhf), false, true);
                if (fb) {
                    cc.run("vf", w, [&](int l) { return m.vf_iter(h, l); }, [&](int l) { return m.vertex_faces(h, l); }, uniq(vf), false, true);
                    cc.run("vc", w, [&](int l) { return m.vc_iter(h, l); }, [&](int l) { return m.vertex_cells(h, l); }, uniq(vc), false, true);
                }
            }
        }
    }
    if (eb) for (int he : lhe) {
        HalfEdgeHandle h(he);
        std::string w = "halfedge " + std::to_string(he);
        std::vector<int> fs, cs;
        for (int hf : b.hfs[he]) { fs.push_back(hf / 2); if (b.cellof[hf] >= 0) cs.push_back(b.cellof[hf]); }
        cc.run("hehf", w, [&](int l) { return m.hehf_iter(h, l); }, [&](int l) { return m.halfedge_halffaces(h, l); }, b.hfs[he], false, false);
        cc.run("hef", w, [&](int l) { return m.hef_iter(h, l); }, [&](int l) { return m.halfedge_faces(h, l); }, uniq(fs), false, true);
        if (fb) cc.run("hec", w, [&](int l) { return m.hec_iter(h, l); }, [&](int l) { return m.halfedge_cells(h, l); }, uniq(cs), false, true);
        if (!(he & 1)) {
            EdgeHandle e(he / 2);
            std::string we = "edge " + std::to_string(he / 2);
            std::vector<int> ehf;
            for (int hf : b.hfs[he]) { ehf.push_back(hf); ehf.push_back(hf ^ 1); }
            cc.run("ehf", we, [&](int l) { return m.ehf_iter(e, l); }, [&](int l) { return m.edge_halffaces(e, l); }, ehf, false, false);
            cc.run("ef", we, [&](int l) { return m.ef_iter(e, l); }, [&](int l) { return m.edge_faces(e, l); }, uniq(fs), false, true);
            if (fb) cc.run("ec", we, [&](int l) { return m.ec_iter(e, l); }, [&](int l) { return m.edge_cells(e, l); }, uniq(cs), false, true);
        }
    }
    for (int hf : lhf) {
        HalfFaceHandle h(hf);
        std::string w = "halfface " + std::to_string(hf);
        std::vector<int> hes = b.hf_hes(hf), vs, es;
        for (int x : hes) { vs.push_back(b.from(x)); es.push_back(x / 2); }
        cc.run("hfhe", w, [&](int l) { return m.hfhe_iter(h, l); }, [&](int l) { return m.halfface_halfedges(h, l); }, hes, true, false);
        cc.run("hfe", w, [&](int l) { return m.hfe_iter(h, l); }, [&](int l) { return m.halfface_edges(h, l); }, es, true, false);
        cc.run("hfv", w, [&](int l) { return m.hfv_iter(h, l); }, [&](int l) { return m.halfface_vertices(h, l); }, vs, true, false);
        if (fb && eb && b.cellof[hf] < 0) {
            std::vector<int> nb;
            for (int x : hes) for (int g : b.hfs[x ^ 1]) if (b.cellof[g] < 0) nb.push_back(g);
            cc.run("bhfhf", w, [&](int l) { return m.bhfhf_iter(h, l); }, [&](int l) { return m.boundary_halfface_halffaces(h, l); }, nb, false, false);
        }
        if (!(hf & 1)) {
            FaceHandle f(hf / 2);
            std::string wf = "face " + std::to_string(hf / 2);
            cc.run("fv", wf, [&](int l) { return m.fv_iter(f, l); }, [&](int l) { return m.face_vertices(f, l); }, vs, true, false);
            cc.run("fhe", wf, [&](int l) { return m.fhe_iter(f, l); }, [&](int l) { return m.face_halfedges(f, l); }, hes, true, false);
            cc.run("fe", wf, [&](int l) { return m.fe_iter(f, l); }, [&](int l) { return m.face_edges(f, l); }, es, true, false);
        }
    }
    for (int c : lc) {
        CellHandle h(c);
        std::string w = "cell " + std::to_string(c);
        std::vector<int> chf = b.C[c], cf, che, ce, cv, ccs;
        for (int hf : chf) { cf.push_back(hf / 2); for (int x : b.hf_hes(hf)) { che.push_back(x); ce.push_back(x / 2); } for (int x : b.F[hf / 2]) cv.push_back(b.from(x)); if (b.cellof[hf ^ 1] >= 0) ccs.push_back(b.cellof[hf ^ 1]); }
        cc.run("chf", w, [&](int l) { return m.chf_iter(h, l); }, [&](int l) { return m.cell_halffaces(h, l); }, chf, true, false);
        cc.run("cf", w, [&](int l) { return m.cf_iter(h, l); }, [&](int l) { return m.cell_faces(h, l); }, cf, true, false);
        cc.run("che", w, [&](int l) { return m.che_iter(h, l); }, [&](int l) { return m.cell_halfedges(h, l); }, che, true, false);
        cc.run("ce", w, [&](int l) { return m.ce_iter(h, l); }, [&](int l) { return m.cell_edges(h, l); }, uniq(ce), true, true);
        cc.run("cv", w, [&](int l) { return m.cv_iter(h, l); }, [&](int l) { return m.cell_vertices(h, l); }, uniq(cv), true, true);
        if (fb) cc.run("cc", w, [&](int l) { return m.cc_iter(h, l); }, [&](int l) { return m.cell_cells(h, l); }, uniq(ccs), true, true);
    }
    st.add("c05_circulators_checked", cc.n);
    st.add("probe_c05_empty_centre", cc.empties);
    if (cc.n > 0 && !le.empty()) st.nt(digest);
}

}  // namespace sim

namespace sim {
// ------------------------------------------------------------------ C12: circulators that need a disabled incidence kind are immediately invalid
template <class M> void battery_c12_disabled(const M &m, const Ctx &ctx, RunStats &st) {
    const std::vector<std::string> OW = {"C12"};
    bool V = m.has_vertex_bottom_up_incidences(), E = m.has_edge_bottom_up_incidences(), F = m.has_face_bottom_up_incidences();
    if (V && E && F) return;
    long n = 0;
    auto dead = [&](const char *name, auto it, auto range, int centre) {
        ++n;
        if (it.valid()) ctx.fail(OW, std::string("circulator-valid-with-disabled-kind-") + name, std::string(name) + " on " + std::to_string(centre) + " is valid although a bottom-up kind it needs is disabled (V=" + std::to_string(V) + " E=" + std::to_string(E) + " F=" + std::to_string(F) + ")");
        if (range.first.valid() || !(range.first == range.second)) ctx.fail(OW, std::string("range-nonempty-with-disabled-kind-") + name, std::string(name) + " range on " + std::to_string(centre));
    };
    int nv = (int)m.n_vertices(), ne = (int)m.n_edges(), nf = (int)m.n_faces(), nc = (int)m.n_cells();
    for (int v = 0; v < nv && v < 6; ++v) {
        VertexHandle h(v);
        if (m.is_deleted(h)) continue;
        if (!V) { dead("voh", m.voh_iter(h), m.outgoing_halfedges(h), v); dead("vih", m.vih_iter(h), m.incoming_halfedges(h), v); dead("vv", m.vv_iter(h), m.vertex_vertices(h), v); dead("ve", m.ve_iter(h), m.vertex_edges(h), v); }
        if (!V || !E) { dead("vhf", m.vhf_iter(h), m.vertex_halffaces(h), v); dead("vf", m.vf_iter(h), m.vertex_faces(h), v); }
        dead("vc", m.vc_iter(h), m.vertex_cells(h), v);   // needs all three; at least one is off here
    }
    for (int e = 0; e < ne && e < 6; ++e) {
        EdgeHandle eh(e);
        if (m.is_deleted(eh)) continue;
        HalfEdgeHandle h(2 * e + (e & 1));
        if (!E) { dead("hehf", m.hehf_iter(h), m.halfedge_halffaces(h), h.idx()); dead("hef", m.hef_iter(h), m.halfedge_faces(h), h.idx()); dead("ehf", m.ehf_iter(eh), m.edge_halffaces(eh), e); dead("ef", m.ef_iter(eh), m.edge_faces(eh), e); }
        if (!E || !F) { dead("hec", m.hec_iter(h), m.halfedge_cells(h), h.idx()); dead("ec", m.ec_iter(eh), m.edge_cells(eh), e); }
    }
    if (!F) {
        for (int c = 0; c < nc && c < 6; ++c) { CellHandle h(c); if (!m.is_deleted(h)) dead("cc", m.cc_iter(h), m.cell_cells(h), c); }
        for (int f = 0; f < nf && f < 6; ++f) { if (m.is_deleted(FaceHandle(f))) continue; HalfFaceHandle h(2 * f); dead("bhfhf", m.bhfhf_iter(h), m.boundary_halfface_halffaces(h), h.idx()); }
    }
    st.add("c12_disabled_kind_circulators_checked", n);
    if (n) st.add("probe_c12_disabled_kind_circulators");
}
}  // namespace sim
