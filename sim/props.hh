// Type-erased holders for PropertyPtr<T,Entity> (5 value types x 7 entity kinds) and the registry calls.
// Values are rendered from unique integers so that every read is attributable to one write.
#pragma once
#include <memory>
#include <optional>
#include <string>
#include <OpenVolumeMesh/Core/ResourceManager.hh>
#include <OpenVolumeMesh/Geometry/VectorT.hh>
#include "model.hh"

namespace sim {
namespace OVM = OpenVolumeMesh;
using Vec3d = OVM::Geometry::Vec3d;

enum PType { TInt = 0, TBool = 1, TDouble = 2, TString = 3, TVec = 4, NTYPES = 5 };
inline const char *ptype_name(int t) { static const char *n[] = {"int", "bool", "double", "string", "vec3d"}; return n[t]; }
inline const char *pkind_name(int k) { static const char *n[] = {"V", "E", "HE", "F", "HF", "C", "M"}; return n[k]; }

template <class T> struct Render;
template <> struct Render<int> { static int make(int n) { return n; } static int back(int v) { return v; } };
template <> struct Render<bool> { static bool make(int n) { return n & 1; } static int back(bool v) { return v ? 1 : 0; } };
template <> struct Render<double> { static double make(int n) { return n + 0.5; } static int back(double v) { return (int)(v - 0.5); } };
template <> struct Render<std::string> {
    // every fourth value is longer than libstdc++'s small-string buffer (15), so that moves / swaps / copies of heap-backed strings are exercised
    static std::string make(int n) { std::string v = "s" + std::to_string(n); if (n % 4 == 0) v += "_" + std::string(20 + (size_t)(n % 13), 'x'); return v; }
    static int back(const std::string &v) { return v.size() > 1 ? atoi(v.c_str() + 1) : -1; }
};
template <> struct Render<Vec3d> {
    static Vec3d make(int n) { return Vec3d(n, n + 1, n + 2); }
    static int back(const Vec3d &v) { return (int)v[0]; }
};

struct PropHolderBase {
    int kind = 0, type = 0;
    int model_id = -1;
    virtual ~PropHolderBase() {}
    virtual size_t size() const = 0;
    virtual bool equals(size_t idx, int n) const = 0;
    virtual int decode(size_t idx) const = 0;
    virtual std::string show(size_t idx) const = 0;
    virtual void set(size_t idx, int n) = 0;
    virtual void fill(int n) = 0;
    virtual bool def_equals(int n) const = 0;
    virtual bool attached() const = 0;
    virtual bool shared() const = 0;
    virtual bool persistent() const = 0;
    virtual bool anonymous() const = 0;
    virtual std::string name() const = 0;
    virtual void set_name(const std::string &) = 0;
    virtual std::unique_ptr<PropHolderBase> copy_handle() const = 0;
    virtual const void *storage_id() const = 0;   // identity only, never logged
    virtual long use_count() const = 0;
    virtual void set_shared(OVM::ResourceManager &, bool) = 0;      // may throw
    virtual void set_persistent(OVM::ResourceManager &, bool) = 0;  // may throw
};

template <class T, class E> struct PropHolder : PropHolderBase {
    using Ptr = OVM::PropertyPtr<T, E>;
    using H = typename Ptr::EntityHandleT;
    // PropertyPtr::storage() is protected; expose it for identity / use_count only
    struct Peek : Ptr {
        explicit Peek(const Ptr &p) : Ptr(p) {}
        const std::shared_ptr<OVM::PropertyStorageT<T>> &st() const { return this->OVM::PropertyStoragePtr<T>::storage(); }
    };
    Ptr p;
    explicit PropHolder(Ptr q) : p(std::move(q)) {}
    size_t size() const override { return p.size(); }
    bool equals(size_t i, int n) const override { const Ptr &c = p; T v = c[H((int)i)]; return v == Render<T>::make(n); }
    int decode(size_t i) const override { const Ptr &c = p; T v = c[H((int)i)]; return Render<T>::back(v); }
    std::string show(size_t i) const override { return std::to_string(decode(i)); }
    void set(size_t i, int n) override { p[H((int)i)] = Render<T>::make(n); }
    void fill(int n) override { p.fill(Render<T>::make(n)); }
    bool def_equals(int n) const override { return p.def() == Render<T>::make(n); }
    bool attached() const override { return (bool)p; }
    bool shared() const override { return p.shared(); }
    bool persistent() const override { return p.persistent(); }
    bool anonymous() const override { return p.anonymous(); }
    std::string name() const override { return p.name(); }
    void set_name(const std::string &s) override { p.set_name(s); }
    std::unique_ptr<PropHolderBase> copy_handle() const override {
        auto h = std::make_unique<PropHolder<T, E>>(p);
        h->kind = kind; h->type = type; h->model_id = model_id;
        return h;
    }
    const void *storage_id() const override { Peek k(p); return k.st().get(); }
    long use_count() const override { Peek k(p); return k.st().use_count() - 1; }
    void set_shared(OVM::ResourceManager &m, bool on) override { m.set_shared(p, on); }
    void set_persistent(OVM::ResourceManager &m, bool on) override { m.set_persistent(p, on); }
};

enum RegCall { R_REQUEST, R_CREATE_SHARED, R_CREATE_PERSISTENT, R_CREATE_PRIVATE, R_GET, R_EXISTS };

template <class T, class E>
std::unique_ptr<PropHolderBase> reg_call_TE(OVM::ResourceManager &m, int call, int kind, int type, const std::string &name, int defn, bool *exists_out) {
    std::optional<OVM::PropertyPtr<T, E>> r;
    T def = Render<T>::make(defn);
    // half of the calls go through the per-entity convenience entry points (request_vertex_property<T>, create_shared_cell_property<T>, ...)
    if ((defn >> 1) & 1) {
        namespace En = OVM::Entity;
#define OVMSIM_TYPED(KIND, fn)                                                                                  \
        if constexpr (std::is_same_v<E, En::KIND>) {                                                            \
            switch (call) {                                                                                    \
            case R_REQUEST: r = m.request_##fn##_property<T>(name, def); break;                                 \
            case R_CREATE_SHARED: r = m.create_shared_##fn##_property<T>(name, def); break;                     \
            case R_CREATE_PERSISTENT: r = m.create_persistent_##fn##_property<T>(name, def); break;             \
            case R_CREATE_PRIVATE: r = m.create_private_##fn##_property<T>(name, def); break;                   \
            case R_GET: r = m.get_##fn##_property<T>(name); break;                                              \
            case R_EXISTS: if (exists_out) *exists_out = m.fn##_property_exists<T>(name); return nullptr;       \
            }                                                                                                  \
        }
        OVMSIM_TYPED(Vertex, vertex) OVMSIM_TYPED(Edge, edge) OVMSIM_TYPED(HalfEdge, halfedge) OVMSIM_TYPED(Face, face)
        OVMSIM_TYPED(HalfFace, halfface) OVMSIM_TYPED(Cell, cell)
        if constexpr (std::is_same_v<E, En::Mesh>) { if (call == R_REQUEST) r = m.request_mesh_property<T>(name, def); else goto generic; }
#undef OVMSIM_TYPED
        if (!r) return nullptr;
        auto h = std::make_unique<PropHolder<T, E>>(*r);
        h->kind = kind; h->type = type;
        return h;
    }
generic:
    switch (call) {
    case R_REQUEST: r = m.request_property<T, E>(name, def); break;
    case R_CREATE_SHARED: r = m.create_shared_property<T, E>(name, def); break;
    case R_CREATE_PERSISTENT: r = m.create_persistent_property<T, E>(name, def); break;
    case R_CREATE_PRIVATE: r = m.create_private_property<T, E>(name, def); break;
    case R_GET: r = m.get_property<T, E>(name); break;
    case R_EXISTS: if (exists_out) *exists_out = m.property_exists<T, E>(name); return nullptr;
    }
    if (!r) return nullptr;
    auto h = std::make_unique<PropHolder<T, E>>(*r);
    h->kind = kind; h->type = type;
    return h;
}
template <class E>
std::unique_ptr<PropHolderBase> reg_call_E(OVM::ResourceManager &m, int call, int kind, int type, const std::string &name, int defn, bool *ex) {
    switch (type) {
    case TInt: return reg_call_TE<int, E>(m, call, kind, type, name, defn, ex);
    case TBool: return reg_call_TE<bool, E>(m, call, kind, type, name, defn, ex);
    case TDouble: return reg_call_TE<double, E>(m, call, kind, type, name, defn, ex);
    case TString: return reg_call_TE<std::string, E>(m, call, kind, type, name, defn, ex);
    default: return reg_call_TE<Vec3d, E>(m, call, kind, type, name, defn, ex);
    }
}
std::unique_ptr<PropHolderBase> reg_call(OVM::ResourceManager &m, int call, int kind, int type, const std::string &name, int defn, bool *exists_out = nullptr);
size_t n_props_of(const OVM::ResourceManager &m, int kind);
size_t n_persistent_props_of(const OVM::ResourceManager &m, int kind);
void clear_props_of(OVM::ResourceManager &m, int kind);
// wrap a persistent storage found through persistent_props_begin/end
std::unique_ptr<PropHolderBase> holder_from_storage(OVM::PropertyStorageBase *s);
struct PersistentInfo { int kind; std::string name; std::string type_name; OVM::PropertyStorageBase *st; };
std::vector<PersistentInfo> list_persistent(const OVM::ResourceManager &m);

}  // namespace sim
