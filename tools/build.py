#!/usr/bin/env python3
"""Build OpenVolumeMesh from /repo's *current working tree* plus the ovmsim harness.

Per-object cache keyed by sha256(preprocessed TU + flags): an unchanged tree costs
only the preprocessing pass (~2 s); an edit to /repo recompiles what it reaches.

usage: build.py <variant> [--print-bin]
variants:
  asan   ASan + UBSan subset + libstdc++ container annotations (HIST/STOR worlds)
  plain  -O1, full RELRO (FROZEN world)
Binary: /verif/.cache/bin/ovmsim-<variant>
"""
import fcntl, hashlib, os, re, subprocess, sys, concurrent.futures as cf

VERIF = os.path.dirname(os.path.dirname(os.path.abspath(__file__)))
REPO = os.environ.get("VERIF_REPO", "/repo")
CACHE = os.path.join(VERIF, ".cache")
OBJ = os.path.join(CACHE, "obj")
BIN = os.path.join(CACHE, "bin")
CFG = os.path.join(CACHE, "config")
CXX = "clang++"
GUARD = "OVM_VERIF"

COMMON = ["-std=c++17", "-g", "-DNDEBUG", "-DOVM_STATIC_DEFINE", "-D" + GUARD,
          "-fno-omit-frame-pointer", "-Wno-deprecated-declarations"]
SAN = ["-fsanitize=address,bounds,shift,integer-divide-by-zero,unreachable,return,null,bool,enum",
       "-fno-sanitize-recover=all", "-D_GLIBCXX_SANITIZE_VECTOR"]
VARIANTS = {
    "asan": {"cflags": COMMON + SAN, "ldflags": SAN[:1] + ["-rdynamic"], "opt": "-O1"},
    "plain": {"cflags": COMMON, "ldflags": ["-Wl,-z,relro", "-Wl,-z,now", "-rdynamic"], "opt": "-O1"},
}
# TUs that take minutes at -O1 under ASan (template-heavy codec tables)
HEAVY = {"OpenVolumeMesh/IO/PropertyCodecs.cc"}
# step clock only where liveness is a property (the two readers)
STEPCLOCK_DIRS = ("OpenVolumeMesh/IO/", "OpenVolumeMesh/FileManager/")


def sh(cmd, **kw):
    return subprocess.run(cmd, stdout=subprocess.PIPE, stderr=subprocess.PIPE, **kw)


def gen_config():
    d = os.path.join(CFG, "OpenVolumeMesh", "Config")
    os.makedirs(d, exist_ok=True)
    ver = "0.0.0"
    try:
        txt = open(os.path.join(REPO, "CMakeLists.txt")).read()
        m = re.search(r"project\s*\(.*?VERSION\s+(\d+)\.(\d+)\.(\d+)", txt, re.S)
        if m:
            ver = ".".join(m.groups())
    except OSError:
        pass
    a, b, c = ver.split(".")
    files = {
        "Version.hh": f'#pragma once\n#define OPENVOLUMEMESH_VERSION "{ver}"\n#define OPENVOLUMEMESH_VERSION_MAJOR {a}\n'
                      f"#define OPENVOLUMEMESH_VERSION_MINOR {b}\n#define OPENVOLUMEMESH_VERSION_PATCH {c}\n",
        "DeprecationConfig.hh": "#pragma once\n#define OVM_ENABLE_DEPRECATED_APIS 0\n",
        "Export.hh": "#ifndef OVM_EXPORT_H\n#define OVM_EXPORT_H\n#define OVM_EXPORT\n#define OVM_NO_EXPORT\n"
                     "#define CMAKE_OVM_DEPRECATED __attribute__ ((__deprecated__))\n"
                     "#define CMAKE_OVM_DEPRECATED_EXPORT OVM_EXPORT CMAKE_OVM_DEPRECATED\n"
                     "#define CMAKE_OVM_DEPRECATED_NO_EXPORT OVM_NO_EXPORT CMAKE_OVM_DEPRECATED\n#endif\n",
    }
    for n, t in files.items():
        p = os.path.join(d, n)
        if not os.path.exists(p) or open(p).read() != t:
            open(p, "w").write(t)


def repo_sources():
    txt = open(os.path.join(REPO, "src", "CMakeLists.txt")).read()
    m = re.search(r"SET\s*\(\s*SOURCE_FILES(.*?)\)", txt, re.S | re.I)
    return [s for s in m.group(1).split() if s.endswith(".cc")]


def compile_one(args):
    src, flags, tag = args
    pre = sh([CXX, "-E", "-P"] + flags + [src])
    if pre.returncode != 0:
        return (src, None, pre.stderr.decode(errors="replace"))
    h = hashlib.sha256()
    h.update(" ".join(flags).encode())
    h.update(tag.encode())
    h.update(pre.stdout)
    obj = os.path.join(OBJ, h.hexdigest()[:32] + ".o")
    if os.path.exists(obj):
        return (src, obj, "")
    tmp = obj + ".%d.tmp" % os.getpid()
    r = sh([CXX, "-c"] + flags + [src, "-o", tmp])
    if r.returncode != 0:
        return (src, None, r.stderr.decode(errors="replace"))
    os.replace(tmp, obj)
    return (src, obj, "")


def build(variant):
    v = VARIANTS[variant]
    os.makedirs(OBJ, exist_ok=True)
    os.makedirs(BIN, exist_ok=True)
    gen_config()
    inc = ["-I" + os.path.join(REPO, "src"), "-I" + CFG, "-I" + os.path.join(VERIF, "sim")]
    jobs = []
    for s in repo_sources():
        flags = list(v["cflags"]) + inc
        flags.append("-O0" if (s in HEAVY and variant == "asan") else v["opt"])
        if variant == "asan" and s.startswith(STEPCLOCK_DIRS):
            flags.append("-fsanitize-coverage=trace-pc-guard")
        jobs.append((os.path.join(REPO, "src", s), flags, variant))
    simdir = os.path.join(VERIF, "sim")
    for root, _, files in os.walk(simdir):
        for f in sorted(files):
            if not f.endswith(".cc"):
                continue
            p = os.path.join(root, f)
            only = re.search(r"//\s*VARIANT:\s*(\w+)", open(p).read(2000))
            if only and only.group(1) != variant:
                continue
            flags = list(v["cflags"]) + inc + [v["opt"], "-DOVMSIM_VARIANT_" + variant.upper()]
            # reader templates (ASCII property deserialisation, codecs) are instantiated in the world TUs: the step clock must tick there too
            if variant == "asan" and os.path.basename(p).startswith("hist_"):
                flags.append("-fsanitize-coverage=trace-pc-guard")
            jobs.append((p, flags, variant))
    objs, errs = [], []
    with cf.ThreadPoolExecutor(max_workers=int(os.environ.get("VERIF_JOBS", "16"))) as ex:
        for src, obj, err in ex.map(compile_one, jobs):
            if obj is None:
                errs.append((src, err))
            else:
                objs.append(obj)
    if errs:
        for s, e in errs:
            sys.stderr.write("BUILD-ERROR %s\n%s\n" % (s, e[-6000:]))
        return None
    h = hashlib.sha256(("\n".join(sorted(objs)) + " ".join(v["ldflags"])).encode()).hexdigest()[:24]
    out = os.path.join(BIN, "ovmsim-%s-%s" % (variant, h))
    link = os.path.join(BIN, "ovmsim-" + variant)
    if not os.path.exists(out):
        tmp = out + ".%d.tmp" % os.getpid()
        r = sh([CXX] + v["ldflags"] + ["-Wl,--wrap=_ZN14OpenVolumeMesh2IO6detail11WriteBuffer4needEm"]
               + sorted(objs) + ["-o", tmp, "-ldl", "-lpthread"])
        if r.returncode != 0:
            sys.stderr.write("LINK-ERROR\n" + r.stderr.decode(errors="replace")[-6000:])
            return None
        os.replace(tmp, out)
    tmpl = link + ".%d.tmp" % os.getpid()
    if os.path.lexists(tmpl):
        os.unlink(tmpl)
    os.symlink(os.path.basename(out), tmpl)
    os.replace(tmpl, link)
    # prune old binaries (keep the 3 newest per variant)
    olds = sorted((f for f in os.listdir(BIN) if f.startswith("ovmsim-%s-" % variant) and not f.endswith(".tmp")),
                  key=lambda f: os.path.getmtime(os.path.join(BIN, f)))
    for f in olds[:-3]:
        if os.path.join(BIN, f) != out:
            try:
                os.unlink(os.path.join(BIN, f))
            except OSError:
                pass
    return out


def main():
    if len(sys.argv) < 2 or sys.argv[1] not in list(VARIANTS) + ["all"]:
        sys.stderr.write(__doc__)
        return 2
    os.makedirs(CACHE, exist_ok=True)
    lock = open(os.path.join(CACHE, "build.lock"), "w")
    fcntl.flock(lock, fcntl.LOCK_EX)
    rc = 0
    for variant in (list(VARIANTS) if sys.argv[1] == "all" else [sys.argv[1]]):
        out = build(variant)
        if out is None:
            rc = 3
        elif "--print-bin" in sys.argv:
            print(out)
    return rc


if __name__ == "__main__":
    sys.exit(main())
