// Checkpointer ops of the HIST executor (C06 / C07 / C18 and restart-through-file).
#pragma once
#include "hist_io.hh"

namespace sim {

static const int PE_OF_KIND[7] = {0, 1, 4, 2, 5, 3, 6};   // my kind -> PropertyEntity code of the file format

inline bool bits_equal(const Vec3d &a, const Vec3d &b) { return memcmp(&a[0], &b[0], sizeof(double)) == 0 && memcmp(&a[1], &b[1], sizeof(double)) == 0 && memcmp(&a[2], &b[2], sizeof(double)) == 0; }
template <class T> T text_roundtrip(const T &v) { std::stringstream s; s.imbue(std::locale::classic()); s << v; T o = T(); s >> o; return o; }

// expected content of a file written from a replica without pending deletions
template <class Mesh> struct Expect {
    const Rep<Mesh> &r;
    const std::vector<IoRec> &io;
    std::vector<const MProp *> tracked;   // persistent, named properties of the registry model
};

// ------------------------------------------------------------------ IO property table: created / refreshed right before saving
template <class Mesh> void HistRun<Mesh>::io_refresh(R &r, int seed, bool ascii) {
    Rng rng((uint64_t)seed * 77 + 5);
    int want = 2 + (int)rng.below(5);
    // keep what exists (names are stable), add up to `want`
    while ((int)r.io.size() < want) {
        const IoType &t = io_types()[rng.below(io_types().size())];
        IoRec rec;
        rec.kind = (int)rng.below(7);
        rec.type = t.ovmb ? t.ovmb : std::string("ascii:") + t.ascii;
        rec.ascii_ok = t.ascii != nullptr;
        rec.name = "io" + std::to_string(r.io.size()) + "_" + (t.ovmb ? t.ovmb : t.ascii);
        if (rng.chance(0.2)) rec.name += " with blank";
        r.io.push_back(rec);
    }
    for (auto &rec : r.io) {
        const IoType *t = io_type_by_name(rec.type);
        IoArgs a{IO_CREATE, &rng, &rec, "", ascii};
        t->fn(*r.mesh, rec.kind, (size_t)r.nslots(rec.kind), a);
    }
    st.add("probe_io_props_refreshed", (long)r.io.size());
}

// ------------------------------------------------------------------ comparison of a loaded mesh with the replica's model
template <class Mesh> template <class Dst>
std::string HistRun<Mesh>::compare_loaded(const Dst &d, R &r, bool ascii, bool cells_as_sets) {
    const Model &m = r.m;
    if ((int)d.n_vertices() != m.n(BV) || (int)d.n_edges() != m.n(BE) || (int)d.n_faces() != m.n(BF) || (int)d.n_cells() != m.n(BC))
        return "counts: loaded V/E/F/C = " + std::to_string(d.n_vertices()) + "/" + std::to_string(d.n_edges()) + "/" + std::to_string(d.n_faces()) + "/" + std::to_string(d.n_cells()) +
               " expected " + std::to_string(m.n(BV)) + "/" + std::to_string(m.n(BE)) + "/" + std::to_string(m.n(BF)) + "/" + std::to_string(m.n(BC));
    for (int i = 0; i < m.n(BE); ++i) {
        const MEdge &e = m.E[m.slots[BE][i]];
        const auto &x = d.edge(EdgeHandle(i));
        if (x.from_vertex().idx() != m.slot_of[BV][e.from] || x.to_vertex().idx() != m.slot_of[BV][e.to]) return "defs: edge " + std::to_string(i);
    }
    for (int i = 0; i < m.n(BF); ++i) {
        std::vector<int> want, got;
        for (int h : m.F[m.slots[BF][i]]) want.push_back(m.he_slot_of_ref(h));
        for (auto h : d.face(FaceHandle(i)).halfedges()) got.push_back(h.idx());
        if (want != got) return "defs: face " + std::to_string(i) + " loaded " + vec_str(got) + " expected " + vec_str(want);
    }
    for (int i = 0; i < m.n(BC); ++i) {
        std::vector<int> want, got;
        for (int h : m.C[m.slots[BC][i]]) want.push_back(m.hf_slot_of_ref(h));
        for (auto h : d.cell(CellHandle(i)).halffaces()) got.push_back(h.idx());
        if (cells_as_sets) { std::sort(want.begin(), want.end()); std::sort(got.begin(), got.end()); }
        if (want != got) return "defs: cell " + std::to_string(i) + " loaded " + vec_str(got) + " expected " + vec_str(want);
    }
    for (int i = 0; i < m.n(BV); ++i) {
        Vec3d want = pos_of_code(r.vpos[m.slots[BV][i]]);
        if (ascii) for (int k = 0; k < 3; ++k) want[k] = text_roundtrip(want[k]);
        if (!bits_equal(d.vertex(VertexHandle(i)), want)) return "positions: vertex " + std::to_string(i);
    }
    // persistent property set
    std::set<std::string> expected_keys, loaded_keys;
    for (auto &mp : r.props) if (mp.attached && mp.persistent) expected_keys.insert(std::to_string(mp.kind) + "/" + mp.name);
    for (auto &rec : r.io) if (!ascii || rec.ascii_ok) { if (!ascii && rec.type.rfind("ascii:", 0) == 0) continue; expected_keys.insert(std::to_string(rec.kind) + "/" + rec.name); }
    if (r.pos_persistent) expected_keys.insert(std::to_string((int)KV) + "/ovm:position");
    for (auto &pi : list_persistent(d)) loaded_keys.insert(std::to_string(pi.kind) + "/" + pi.name);
    if (expected_keys != loaded_keys) {
        std::string a, b;
        for (auto &k : expected_keys) if (!loaded_keys.count(k)) a += " " + k;
        for (auto &k : loaded_keys) if (!expected_keys.count(k)) b += " " + k;
        return "propset: missing [" + a + " ] unexpected [" + b + " ]";
    }
    Dst &dm = const_cast<Dst &>(d);
    for (auto &mp : r.props) if (mp.attached && mp.persistent) {
        auto h = reg_call(dm, R_GET, mp.kind, mp.type, mp.name, 0);
        if (!h) return "propset: '" + mp.name + "' not found with its value type " + ptype_name(mp.type);
        if ((long)h->size() != r.nslots(mp.kind)) return "propvalue: '" + mp.name + "' size";
        if (!ascii && !h->def_equals(mp.defn)) return "default: '" + mp.name + "'";
        for (int s = 0; s < r.nslots(mp.kind); ++s) {
            int n = mp.get(r.key_of_slot(mp.kind, s));
            // the text format prints 6 significant digits: values beyond that are not denotable (defaults >= 1e6, n >= 1e5)
            if (ascii && (mp.type == TDouble || mp.type == TVec) && n >= 99990) continue;
            if (!h->equals(s, n)) return "propvalue: '" + mp.name + "' (" + ptype_name(mp.type) + ") slot " + std::to_string(s) + " holds " + h->show(s) + " expected " + std::to_string(n);
        }
    }
    for (auto &rec : r.io) {
        if (ascii && !rec.ascii_ok) continue;
        if (!ascii && rec.type.rfind("ascii:", 0) == 0) continue;
        IoRec copy = rec;
        IoArgs a{ascii ? IO_READBACK_ASCII : IO_READBACK_OVMB, nullptr, &copy, "", false};
        io_type_by_name(rec.type)->fn(dm, rec.kind, copy.elems.size(), a);
        if (!a.err.empty()) return "propvalue: " + a.err;
    }
    return "";
}

// independent decoder on writer bytes == model
template <class Mesh> std::string HistRun<Mesh>::compare_decoded(const IFile &f, R &r) {
    const Model &m = r.m;
    if (f.verdict != IFile::VALID) return "verdict " + std::to_string((int)f.verdict) + " " + f.reason;
    if ((int)f.nv != m.n(BV) || (int)f.ne != m.n(BE) || (int)f.nf != m.n(BF) || (int)f.nc != m.n(BC)) return "counts";
    if ((int)f.edges.size() != m.n(BE) || (int)f.faces.size() != m.n(BF) || (int)f.cells.size() != m.n(BC)) return "delivered counts";
    for (int i = 0; i < m.n(BE); ++i) { const MEdge &e = m.E[m.slots[BE][i]]; if ((int)f.edges[i][0] != m.slot_of[BV][e.from] || (int)f.edges[i][1] != m.slot_of[BV][e.to]) return "edge " + std::to_string(i); }
    for (int i = 0; i < m.n(BF); ++i) { std::vector<uint64_t> want; for (int h : m.F[m.slots[BF][i]]) want.push_back((uint64_t)m.he_slot_of_ref(h)); if (want != f.faces[i]) return "face " + std::to_string(i); }
    for (int i = 0; i < m.n(BC); ++i) { std::vector<uint64_t> want; for (int h : m.C[m.slots[BC][i]]) want.push_back((uint64_t)m.hf_slot_of_ref(h)); if (want != f.cells[i]) return "cell " + std::to_string(i); }
    if (m.n(BV) > 0) {
        if ((int)f.pos.size() != 3 * m.n(BV)) return "position count";
        for (int i = 0; i < m.n(BV); ++i) { Vec3d want = pos_of_code(r.vpos[m.slots[BV][i]]); Vec3d got(f.pos[3 * i], f.pos[3 * i + 1], f.pos[3 * i + 2]); if (!bits_equal(got, want)) return "position " + std::to_string(i); }
    }
    auto find = [&](int kind, const std::string &name, const std::string &type) -> const IProp * { for (auto &p : f.props) if (p.entity == PE_OF_KIND[kind] && p.name == name && p.type == type) return &p; return nullptr; };
    size_t expected = 0;
    for (auto &rec : r.io) {
        if (rec.type.rfind("ascii:", 0) == 0) continue;
        ++expected;
        const IProp *p = find(rec.kind, rec.name, rec.type);
        if (!p) return "property '" + rec.name + "' (" + rec.type + ") not in the directory";
        if (p->def != (rec.type == "s32" ? Canon<uint32_t>::enc((uint32_t)rec.def.size()) + rec.def : rec.def)) return "default of '" + rec.name + "'";
        if (p->elems.size() != rec.elems.size() && !(rec.elems.empty() && p->elems.empty())) return "size of '" + rec.name + "': " + std::to_string(p->elems.size()) + " expected " + std::to_string(rec.elems.size());
        for (size_t i = 0; i < rec.elems.size(); ++i) if (!p->have[i] || p->elems[i] != rec.elems[i]) return "value " + std::to_string(i) + " of '" + rec.name + "' (" + rec.type + "): " + hex(p->elems[i]) + " expected " + hex(rec.elems[i]);
    }
    static const char *tname[5] = {"i32", "b", "d", "s32", "3d"};
    for (auto &mp : r.props) if (mp.attached && mp.persistent) {
        ++expected;
        const IProp *p = find(mp.kind, mp.name, tname[mp.type]);
        if (!p) return "tracked property '" + mp.name + "' not in the directory";
        auto canon = [&](int n) -> std::string { switch (mp.type) { case TInt: return Canon<int32_t>::enc(n); case TBool: return Canon<bool>::enc(n & 1); case TDouble: return Canon<double>::enc(n + 0.5); case TString: return Render<std::string>::make(n); default: return Canon<Vec3d>::enc(Render<Vec3d>::make(n)); } };
        std::string d = canon(mp.defn);
        if (mp.type == TString) { std::string e = Canon<uint32_t>::enc((uint32_t)d.size()) + d; if (p->def != e) return "default of '" + mp.name + "'"; }
        else if (p->def != d) return "default of '" + mp.name + "'";
        for (int s = 0; s < r.nslots(mp.kind); ++s) { if ((int)p->elems.size() <= s || !p->have[s] || p->elems[s] != canon(mp.get(r.key_of_slot(mp.kind, s)))) return "value " + std::to_string(s) + " of '" + mp.name + "'"; }
    }
    if (r.pos_persistent) ++expected;
    if (f.props.size() != expected) return "directory lists " + std::to_string(f.props.size()) + " properties, expected " + std::to_string(expected);
    return "";
}

template <class Mesh> int HistRun<Mesh>::expected_topo_type(const R &r) const {
    if (KID == 1) return 1;
    if (KID == 2) return 2;
    const Model &m = r.m;
    if (m.n(BC) == 0) return 0;
    bool tet = true, hex = true;
    for (int u : m.live_uids(BF)) { if (m.F[u].size() != 3) tet = false; if (m.F[u].size() != 4) hex = false; }
    for (int u : m.live_uids(BC)) { if (m.C[u].size() != 4) tet = false; if (m.C[u].size() != 6) hex = false; }
    return tet ? 1 : hex ? 2 : 0;
}

// ------------------------------------------------------------------ C06: round trips
template <class Mesh> void HistRun<Mesh>::op_roundtrip(R &r, const Op &q) {
    const std::vector<std::string> OW = {"C06"};
    bool ascii = q.a[0] & 1;
    Rng rng((uint64_t)q.a[1] * 31 + 7);
    bool special = false;
    for (int u : r.m.live_uids(BV)) if (r.vpos[u] < 0 && r.vpos[u] != INT_MIN) special = true;
    if (ascii && special) ascii = false;
    g_writebuf_knob = rng.chance(0.15) ? 0 : (size_t)64 << rng.below(15);
    WriteFaults wf; wf.max_accept = 1 + rng.below(4096);
    if (r.m.needs_gc()) {
        // pending deletions: refused, or written as the logical content - never a file that reads back as something else or not at all
        std::string img;
        st.add("probe_save_with_pending_deletions");
        if (!ascii) {
            IO::WriteResult wr = save_ovmb(*r.mesh, img, wf);
            if (wr == IO::WriteResult::Ok) ctx.fail(OW, "pending-deletions", "ovmb_write returned Ok for a mesh with pending deletions");
        } else {
            bool ok = save_ascii(*r.mesh, img, wf);
            if (ok) {
                PolyMesh d; ReadFaults rf;
                LoadOutcome lo = load_ascii(img, d, rf, false, true, 0);
                if (!lo.ok) ctx.fail(OW, "pending-deletions", "ASCII writer accepted a mesh with pending deletions and produced a file that cannot be read back");
                if ((int)d.n_vertices() != r.m.n_logical(BV) || (int)d.n_edges() != r.m.n_logical(BE) || (int)d.n_faces() != r.m.n_logical(BF) || (int)d.n_cells() != r.m.n_logical(BC))
                    ctx.fail(OW, "pending-deletions", "ASCII file of a mesh with pending deletions reads back as a different mesh");
            }
        }
        return;
    }
    io_refresh(r, q.a[1], ascii);
    // "read with topology check on (for meshes that pass it)"
    bool passes = true;
    for (int u : r.m.live_uids(BF)) if (!loop_closed(r, r.m.F[u])) passes = false;
    for (int u : r.m.live_uids(BC)) if (!surface_closed(r, r.m.C[u])) passes = false;
    Op qq = q;
    if (!passes) { qq.a[2] &= ~1; st.add("probe_roundtrip_mesh_failing_topology_check"); }
    const Op &q2 = qq;
    std::string img;
    if (ascii) {
        if (!save_ascii(*r.mesh, img, wf)) ctx.fail(OW, "ascii-write-failed", "healthy stream");
        auto load_and_compare = [&](auto &dst, bool tc, bool bu, const char *what) {
            ReadFaults rf; rf.max_chunk = 1 + rng.below(512);
            LoadOutcome lo = load_ascii(img, dst, rf, tc, bu, 0);
            if (!lo.ok) ctx.fail(OW, "ascii-read-failed", std::string(what) + " result=" + lo.result + " " + lo.what);
            std::string d = compare_loaded(dst, r, true, KernelOf<std::decay_t<decltype(dst)>>::id == 2 && tc);
            if (!d.empty()) ctx.fail(OW, "ascii-" + d.substr(0, d.find(':')), std::string(what) + " " + d);
        };
        bool tc = q2.a[2] & 1, bu = q2.a[2] & 2;
        Mesh same; load_and_compare(same, tc, bu, "same kernel");
        if (KID != 0) { PolyMesh p; load_and_compare(p, tc, bu, "into polyhedral"); }
        {   // "into every compatible mesh type": a polyhedral mesh whose content is tetrahedral / hexahedral
            int tt = expected_topo_type(r);
            if (KID == 0 && tt == 1) { TetMesh t; load_and_compare(t, tc, bu, "into tetrahedral"); st.add("probe_cross_type_read_ascii"); }
            if (KID == 0 && tt == 2 && !tc) { HexMesh h; load_and_compare(h, tc, bu, "into hexahedral"); st.add("probe_cross_type_read_ascii"); }
        }
        // second round trip is a fixed point
        std::string img2; WriteFaults wf2;
        save_ascii(same, img2, wf2);
        {   // the order of the property blocks follows heap addresses: compare them as a multiset
            auto canon = [](const std::string &t) {
                std::vector<std::string> blocks(1);
                std::istringstream in(t); std::string l;
                while (std::getline(in, l)) {
                    bool hdr = false;
                    for (const char *k : {"VProp ", "EProp ", "HEProp ", "FProp ", "HFProp ", "CProp ", "MProp "}) if (l.rfind(k, 0) == 0) hdr = true;
                    if (hdr) blocks.emplace_back();
                    blocks.back() += l + "\n";
                }
                std::sort(blocks.begin() + 1, blocks.end());
                return blocks;
            };
            if (canon(img2) != canon(img)) ctx.fail(OW, "ascii-fixedpoint", "a second round trip changes the file");
        }
        // type detection from the file
        {
            std::string path = g_scratch_dir + "/rt_" + std::to_string(getpid()) + ".ovm";
            { std::ofstream f(path, std::ios::binary); f << img; }
            IO::FileManager fm; fm.setVerbosityLevel(0);
            bool allhex = r.m.n(BC) > 0, alltet = r.m.n(BC) > 0;
            for (int u : r.m.live_uids(BC)) { if (r.m.C[u].size() != 6) allhex = false; if (r.m.C[u].size() != 4) alltet = false; }
            bool gh = fm.isHexahedralMesh(path), gt = fm.isTetrahedralMesh(path);
            unlink(path.c_str());
            if (gh != allhex || gt != alltet) ctx.fail(OW, "typedetect", "ASCII isHexahedralMesh=" + std::to_string(gh) + " isTetrahedralMesh=" + std::to_string(gt) + " model hex=" + std::to_string(allhex) + " tet=" + std::to_string(alltet));
        }
        // through a real file: FileManager::writeFile + IO::read_file (dispatch on the file ending)
        if (rng.chance(0.3)) {
            std::string path = g_scratch_dir + "/rtp_" + std::to_string(getpid()) + ".ovm";
            IO::FileManager fm; fm.setVerbosityLevel(0);
            if (!fm.writeFile(path, *r.mesh)) { unlink(path.c_str()); ctx.fail(OW, "ascii-write-failed", "writeFile(path) on a healthy file system"); }
            Mesh dst; bool okr = false; std::string ex;
            try { okr = IO::read_file(path, dst, tc, bu); } catch (const std::exception &e) { ex = e.what(); }
            unlink(path.c_str());
            if (!okr) ctx.fail(OW, "ascii-read-failed", "IO::read_file(.ovm) " + ex);
            std::string d = compare_loaded(dst, r, true, KID == 2 && tc);
            if (!d.empty()) ctx.fail(OW, "ascii-" + d.substr(0, d.find(':')), "IO::read_file(.ovm) " + d);
            if (dst.has_vertex_bottom_up_incidences() != bu) ctx.fail(OW, "ascii-options", "read_file: bottom_up_incidences argument not honoured");
            st.add("probe_roundtrip_read_file_ovm");
        }
        st.add("probe_roundtrip_ascii");
        st.nt(fnv1a(img));
        return;
    }
    IO::WriteResult wr = save_ovmb(*r.mesh, img, wf);
    if (wr != IO::WriteResult::Ok) ctx.fail(OW, "ovmb-write-failed", IO::to_string(wr));
    IFile dec = ovmb_decode(img);
    { std::string d = compare_decoded(dec, r); if (!d.empty()) ctx.fail(OW, "decoder-disagrees", "writer bytes do not decode to the mesh under the published description: " + d); }
    int tt = expected_topo_type(r);
    if (dec.topo_type != tt) ctx.fail(OW, "typedetect", "file topo_type=" + std::to_string(dec.topo_type) + " model " + std::to_string(tt));
    {
        ReadFaults rf; SimIStreamBuf sb(img, rf); std::istream is(&sb);
        auto rd = IO::make_ovmb_reader(is, IO::ReadOptions(), IO::g_default_property_codecs);
        auto t = rd->topo_type(); auto vd = rd->vertex_dim();
        if (!t || (int)*t != tt || !vd || *vd != 3) ctx.fail(OW, "typedetect", "BinaryFileReader::topo_type()/vertex_dim()");
    }
    auto load_and_compare = [&](const std::string &image, auto &dst, IO::ReadOptions ro, const char *what, const char *cls) {
        ReadFaults rf; rf.max_chunk = 1 + rng.below(512);
        LoadOutcome lo = load_ovmb(image, dst, rf, ro, 0);
        if (!lo.ok) ctx.fail(OW, cls, std::string(what) + " result=" + lo.result + " " + lo.what);
        bool hexset = KernelOf<std::decay_t<decltype(dst)>>::id == 2 && ro.topology_check;
        std::string d = compare_loaded(dst, r, false, hexset);
        if (!d.empty()) ctx.fail(OW, std::string(cls) == "reencoding-rejected" ? "reencoding-differs" : "ovmb-" + d.substr(0, d.find(':')), std::string(what) + " " + d);
        if (dst.has_vertex_bottom_up_incidences() != ro.bottom_up_incidences) ctx.fail(OW, "ovmb-options", "bottom_up_incidences option not honoured");
    };
    IO::ReadOptions ro; ro.topology_check = q2.a[2] & 1; ro.bottom_up_incidences = q2.a[2] & 2;
    { Mesh same; load_and_compare(img, same, ro, "same kernel", "ovmb-read-failed"); }
    { PolyMesh p; load_and_compare(img, p, ro, "into polyhedral", "ovmb-read-failed"); }
    if (KID == 0 && tt == 1) { TetMesh t; load_and_compare(img, t, ro, "into tetrahedral", "ovmb-read-failed"); st.add("probe_cross_type_read"); }
    if (KID == 0 && tt == 2 && !ro.topology_check) { HexMesh h; load_and_compare(img, h, ro, "into hexahedral", "ovmb-read-failed"); st.add("probe_cross_type_read"); }
    if (rng.chance(0.25)) {   // through a real file: ovmb_write(path) + IO::read_file (dispatch on the file ending)
        std::string path = g_scratch_dir + "/rtp_" + std::to_string(getpid()) + ".ovmb";
        IO::WriteResult w2 = IO::ovmb_write(std::filesystem::path(path), *r.mesh);
        if (w2 != IO::WriteResult::Ok) { unlink(path.c_str()); ctx.fail(OW, "ovmb-write-failed", "ovmb_write(path) " + std::string(IO::to_string(w2))); }
        std::string onDisk; { std::ifstream f(path, std::ios::binary); std::ostringstream o; o << f.rdbuf(); onDisk = o.str(); }
        Mesh dst; bool okr = false; std::string ex;
        try { okr = IO::read_file(path, dst, ro.topology_check, ro.bottom_up_incidences); } catch (const std::exception &e) { ex = e.what(); }
        unlink(path.c_str());
        { IFile d2 = ovmb_decode(onDisk); std::string dd = compare_decoded(d2, r); if (!dd.empty()) ctx.fail(OW, "decoder-disagrees", "bytes written by ovmb_write(path) do not decode to the mesh: " + dd); }
        if (!okr) ctx.fail(OW, "ovmb-read-failed", "IO::read_file(.ovmb) " + ex);
        std::string d = compare_loaded(dst, r, false, KID == 2 && ro.topology_check);
        if (!d.empty()) ctx.fail(OW, "ovmb-" + d.substr(0, d.find(':')), "IO::read_file(.ovmb) " + d);
        if (dst.has_vertex_bottom_up_incidences() != ro.bottom_up_incidences) ctx.fail(OW, "ovmb-options", "read_file: bottom_up_incidences argument not honoured");
        st.add("probe_roundtrip_read_file_ovmb");
    }
    // every other legal encoding reads to the same mesh
    for (int k = 0; k < 3; ++k) {
        Rng er((uint64_t)q.a[3] * 13 + k);
        EncodeChoices ch;
        if (const char *e = getenv("OVMSIM_REENC_MASK")) { int mk = atoi(e); ch.split = mk & 1; ch.widen = mk & 2; ch.offsets = mk & 4; ch.extra_chunks = mk & 8; ch.float_verts = mk & 16; ch.dirp_late = mk & 32; }
        std::map<std::string, long> used;
        std::string re = ovmb_encode(dec, er, ch, &used);
        for (auto &kv : used) st.add("probe_" + kv.first, kv.second);
        IFile back = ovmb_decode(re);
        if (back.verdict == IFile::INVALID) throw Inconclusive{"harness: re-encoding judged invalid by its own decoder: " + back.reason};
        PolyMesh p;
        std::string what = "re-encoding " + std::to_string(k) + " (";
        for (auto &kv : used) what += kv.first.substr(7) + " ";
        what += ")";
        load_and_compare(re, p, ro, what.c_str(), "reencoding-rejected");
    }
    st.add("probe_roundtrip_ovmb");
    st.nt(fnv1a(img));
    if (r.m.n(BV) == 0) st.add("probe_roundtrip_empty_mesh");
}

template <class Mesh> void HistRun<Mesh>::op_restart(R &r, const Op &q) {
    if (r.m.needs_gc() || reps.size() >= 3 || r.pos_persistent) return;   // (a persistent position is written as an ordinary property and comes back as a second, separate property of that name)
    std::string img; WriteFaults wf;
    if (save_ovmb(*r.mesh, img, wf) != IO::WriteResult::Ok) ctx.fail({"C06"}, "ovmb-write-failed", "restart");
    std::unique_ptr<Mesh> nm(new Mesh());
    ReadFaults rf; rf.max_chunk = 1 + (size_t)(q.a[0] % 300);
    IO::ReadOptions ro; ro.topology_check = false; ro.bottom_up_incidences = true;
    LoadOutcome lo = load_ovmb(img, *nm, rf, ro, 0);
    if (!lo.ok) ctx.fail({"C06"}, "ovmb-read-failed", "restart " + lo.result);
    std::unique_ptr<R> n(new R(nm.release()));
    n->m = r.m; n->vpos = r.vpos; n->lat_v = r.lat_v; n->lat_c = r.lat_c; n->io = r.io;
    n->m.deferred = true; n->m.fast = true; n->m.bu[0] = n->m.bu[1] = n->m.bu[2] = true;   // a freshly loaded mesh has default modes
    for (auto &mp : r.props) if (mp.attached && mp.persistent) { MProp c = mp; c.id = (int)n->props.size(); n->props.push_back(c); }
    n->write_tags();
    reps.push_back(std::move(n));
    cur = (int)reps.size() - 1;
    st.add("probe_restart_through_file");
}

// a cell that is not a closed surface (legal without topology check): files must carry it unchanged
template <class Mesh> void HistRun<Mesh>::op_open_cell(R &r, const Op &q) {
    if (KID != 0 || r.m.n(BV) + 4 > plan.c("maxv", 24) + 12) return;
    const PolyTemplate &T = poly_template(q.a[0] % 4);
    std::vector<int> vs;
    for (int i = 0; i < T.nv; ++i) vs.push_back(w_add_vertex(r, true));
    std::vector<int> hfs;
    for (auto &fc : T.faces) { std::vector<int> cyc; for (int i : fc) cyc.push_back(vs[i]); int hf = obtain_halfface(r, cyc); if (hf < 0) return; hfs.push_back(hf); }
    int drop = 1 + q.a[1] % ((int)hfs.size() - 1);
    hfs.resize(hfs.size() - drop);
    w_add_cell(r, hfs, false, true, true);
    st.add("probe_open_cell");
}

template <class Mesh> void HistRun<Mesh>::op_set_pos(R &r, const Op &q) {
    std::vector<int> lv = r.m.live_uids(BV);
    if (lv.empty()) return;
    int u = pick(lv, q.a[0]);
    int code = -1 - (q.a[1] % 5);
    r.mesh->set_vertex(r.vh(u), special_pos(code));
    r.vpos[u] = code;
    st.add("probe_special_position");
}

// valence boundaries of the encodings: a mesh whose faces (or cells) ALL have one valence of 255 / 256 / 257 / 300
template <class Mesh> void HistRun<Mesh>::op_big_valence(R &r, const Op &q) {
    if (KID != 0) return;
    static const int vals[4] = {255, 256, 257, 300};
    int k = vals[q.a[0] % 4];
    r.mesh->clear(false);
    r.m.clear(); r.lat_v.clear(); r.lat_c.clear();
    for (auto &mp : r.props) if (mp.attached && mp.kind != KM) mp.val.clear();
    if (q.a[1] & 1) {
        // one or two k-gons
        std::vector<int> vs;
        for (int i = 0; i < k; ++i) vs.push_back(w_add_vertex(r, true));
        w_add_face_v(r, vs);
        if (q.a[1] & 2) { std::vector<int> rv(vs.rbegin(), vs.rend()); std::vector<int> hes; int f0 = r.m.slots[BF][0]; for (int h : r.m.hf_hes(2 * f0 + 1)) hes.push_back(h); w_add_face_he(r, hes, true); }
        st.add("probe_face_valence_" + std::to_string(k));
    } else {
        // bipyramid over an n-gon: one cell of valence 2n, all faces triangles
        int n = (k + 1) / 2;
        std::vector<int> ring;
        for (int i = 0; i < n; ++i) ring.push_back(w_add_vertex(r, true));
        int top = w_add_vertex(r, true), bot = w_add_vertex(r, true);
        std::vector<int> hfs;
        for (int i = 0; i < n; ++i) {
            int a = ring[i], b = ring[(i + 1) % n];
            int h1 = obtain_halfface(r, {a, b, top}), h2 = obtain_halfface(r, {b, a, bot});
            if (h1 < 0 || h2 < 0) return;
            hfs.push_back(h1); hfs.push_back(h2);
        }
        w_add_cell(r, hfs, q.a[1] & 2, true, true);
        st.add("probe_cell_valence_" + std::to_string(2 * n));
    }
    post_op_light = true;
    Op rt = q; rt.a[0] = q.a[2] & 1; rt.a[1] = q.a[3]; rt.a[2] = q.a[2] >> 1;
    op_roundtrip(r, rt);
}

// grow to an index-width boundary cheaply: many vertices / edges / faces, few of them referenced by high indices
template <class Mesh> void HistRun<Mesh>::op_big(R &r, const Op &q) {
    if (KID != 0) return;
    static const int targets[6] = {255, 256, 257, 65535, 65536, 65537};
    int t = targets[q.a[0] % (plan.c("big_ok", 0) ? 6 : 3)];
    int what = q.a[1] % 3;   // vertices / halfedges / halffaces reach the boundary
    Model &m = r.m;
    if (m.n(BV) > 70000 || m.n(BE) > 70000 || m.n(BF) > 70000) return;
    auto grow_vertices = [&](int n) { if (m.n(BV) < n) { r.mesh->add_n_vertices((size_t)(n - m.n(BV))); adopt(r); } };
    if (what == 0) grow_vertices(t);
    else if (what == 1) {   // n_halfedges == t or t+1 (even)
        grow_vertices(3);
        std::vector<int> lv = m.live_uids(BV);
        if (lv.size() < 2) return;
        while (2 * (int)r.mesh->n_edges() < t) { r.mesh->add_edge(r.vh(lv[0]), r.vh(lv[1]), true); }
        adopt(r);
    } else {
        grow_vertices(3);
        std::vector<int> lv = m.live_uids(BV);
        if (lv.size() < 3) return;
        int e0 = w_add_edge(r, lv[0], lv[1], true), e1 = w_add_edge(r, lv[1], lv[2], true), e2 = w_add_edge(r, lv[2], lv[0], true);
        std::vector<HalfEdgeHandle> hh = {r.heh(2 * e0), r.heh(2 * e1), r.heh(2 * e2)};
        while (2 * m.n(BF) + 2 * ((int)r.mesh->n_faces() - m.n(BF)) < t) r.mesh->add_face(hh, false);
        adopt(r);
    }
    // one edge / face that references the highest indices
    if (m.n(BV) >= 2) { std::vector<int> lv = m.live_uids(BV); w_add_edge(r, lv[lv.size() - 1], lv[lv.size() - 2], true); }
    st.add("probe_width_boundary_" + std::to_string(t));
}

}  // namespace sim
