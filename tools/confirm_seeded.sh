#!/bin/sh
# confirm_seeded.sh <worktree> <seeded-id>: re-confirm a sub-agent's change independently (tests pass with it, demo fails with
# it and passes without it), then keep patch + demo under /verif/seeded/<id>/ . Prints one CONFIRM line.
wt="$1"; id="$2"
cd "$wt" || exit 2
lib=$(find _build -name 'libOpenVolumeMesh*.a' | head -1)
git diff -- src > /tmp/confirm_$id.diff
[ -s /tmp/confirm_$id.diff ] || git apply demo/patch.diff
git diff -- src > /tmp/confirm_$id.diff
cmake --build _build -j6 >/dev/null 2>&1 || { echo "CONFIRM $id build-with-change FAILED"; exit 1; }
tests=$(cd _build && timeout 900 ctest -j4 --timeout 200 -E SaveFile 2>&1 | grep "tests passed" )
g++ -std=c++17 -O1 -DNDEBUG -Isrc -I_build/src demo/demo.cc "$lib" -o demo/demo_with >/dev/null 2>&1 || { echo "CONFIRM $id demo-compile FAILED"; exit 1; }
( cd demo && timeout 120 ./demo_with >/tmp/confirm_$id.with 2>&1 ); with=$?
git checkout -- src
cmake --build _build -j6 >/dev/null 2>&1
g++ -std=c++17 -O1 -DNDEBUG -Isrc -I_build/src demo/demo.cc "$lib" -o demo/demo_without >/dev/null 2>&1
( cd demo && timeout 120 ./demo_without >/tmp/confirm_$id.without 2>&1 ); without=$?
git apply /tmp/confirm_$id.diff
echo "CONFIRM $id tests='$tests' demo_with_change=$with demo_without_change=$without"
mkdir -p /verif/seeded/$id
cp /tmp/confirm_$id.diff /verif/seeded/$id/patch.diff
cp demo/demo.cc /verif/seeded/$id/demo.cc
[ -f demo/notes.txt ] && cp demo/notes.txt /verif/seeded/$id/notes.txt
echo "tests='$tests' demo_with_change=$with demo_without_change=$without" > /verif/seeded/$id/confirm.txt
