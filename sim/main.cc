// ovmsim driver: seeded batches on in-process workers, gating (fresh-process replay x2), shrinking, replay files,
// known-findings, evidence.
#include <cerrno>
#include <cstring>
#include <chrono>
#include <csignal>
#include <fcntl.h>
#include <fstream>
#include <iostream>
#include <poll.h>
#include <sys/personality.h>
#include <sys/resource.h>
#include <sys/stat.h>
#include <sys/wait.h>
#include <unistd.h>
#include <unordered_set>
#include "kit.hh"
#include "seams.hh"

namespace sim {
static const PropInfo PROPS[] = {
    {"C01", "HIST", "exploration", "bottom-up queries are the exact inverse of the definitions"},
    {"C02", "HIST", "exploration", "deletion removes exactly the upward closure"},
    {"C03", "HIST", "exploration", "property values follow their entities"},
    {"C04", "HIST", "exploration", "garbage collection preserves the logical mesh"},
    {"C05", "HIST", "exploration", "iterators and circulators"},
    {"C06", "HIST", "exploration", "native formats round-trip"},
    {"C07", "HIST", "exploration", "readers are memory-safe and terminate"},
    {"C08", "HIST", "exploration", "orientation algebra"},
    {"C09", "HIST", "exploration", "rotational order around an edge"},
    {"C10", "HIST", "exploration", "lookups are sound and complete"},
    {"C11", "HIST", "exploration", "construction validates"},
    {"C12", "HIST", "exploration", "incidences optional, transparent to re-enable"},
    {"C13", "HIST", "exploration", "copies are deep and independent"},
    {"C14", "HIST", "exploration", "property registry and lifetimes"},
    {"C15", "HIST", "exploration", "tetrahedral kernel"},
    {"C16", "HIST", "exploration", "hexahedral kernel"},
    {"C17", "HIST", "exploration", "index swaps are pure relabelings"},
    {"C18", "HIST", "fault_enumeration", "OVMB detects truncation, framing corruption, stream failure"},
    {"C20", "FROZEN", "exploration", "concurrent read-only use"},
};
const PropInfo *prop_info(const std::string &id) { for (auto &p : PROPS) if (id == p.id) return &p; return nullptr; }
World *make_world(const std::string &prop) {
    const PropInfo *pi = prop_info(prop);
    if (!pi) return nullptr;
    auto it = WorldReg::tab().find(pi->world);
    return it == WorldReg::tab().end() ? nullptr : it->second();
}
}  // namespace sim
namespace sim { std::string g_scratch_dir = "/verif/.cache/tmp"; }
using namespace sim;

static double now_s() { return std::chrono::duration<double>(std::chrono::steady_clock::now().time_since_epoch()).count(); }
static std::string g_tmpdir;
// Hang watchdogs for code without a step clock, in CPU seconds of the run: a worker's run is cut at g_cpu_worker and re-judged in a
// fresh process with three times that allowance; only a run that exhausts the larger allowance as well is reported as nontermination.
static double g_cpu_worker = 60, g_cpu_replay = 180;
// CPU seconds (user+system) a process has consumed so far: watchdogs count CPU time, not wall time, so that a loaded
// machine (other checks running beside this one) cannot turn a slow run into a "nontermination" verdict.
static double cpu_s(pid_t pid) {
    char path[64]; snprintf(path, sizeof path, "/proc/%d/stat", (int)pid);
    FILE *f = fopen(path, "r"); if (!f) return 0;
    char buf[1024]; size_t n = fread(buf, 1, sizeof buf - 1, f); fclose(f); buf[n] = 0;
    const char *rp = strrchr(buf, ')'); if (!rp) return 0;
    unsigned long ut = 0, st = 0; long cut = 0, cst = 0;
    // fields after ')': state ppid pgrp session tty tpgid flags minflt cminflt majflt cmajflt utime stime cutime cstime
    if (sscanf(rp + 1, " %*c %*d %*d %*d %*d %*d %*u %*u %*u %*u %*u %lu %lu %ld %ld", &ut, &st, &cut, &cst) < 2) return 0;
    return (double)(ut + st + (unsigned long)(cut > 0 ? cut : 0) + (unsigned long)(cst > 0 ? cst : 0)) / (double)sysconf(_SC_CLK_TCK);
}

static double self_cpu_s() {
    double t = 0; struct rusage ru;
    for (int who : {RUSAGE_SELF, RUSAGE_CHILDREN}) if (getrusage(who, &ru) == 0) t += ru.ru_utime.tv_sec + ru.ru_stime.tv_sec + 1e-6 * (ru.ru_utime.tv_usec + ru.ru_stime.tv_usec);
    return t;
}
static std::string stats_line(const RunResult &r) {
    std::ostringstream o;
    bool first = true;
    for (auto &kv : r.st.n) { if (!first) o << ";"; first = false; o << kv.first << "=" << kv.second; }
    if (first) o << "-";
    o << " ";
    if (r.st.nontrivial.empty()) o << "-";
    for (size_t i = 0; i < r.st.nontrivial.size(); ++i) { if (i) o << ","; o << std::hex << r.st.nontrivial[i] << std::dec; }
    o << " ";
    if (r.st.trigrams.empty()) o << "-";
    for (size_t i = 0; i < r.st.trigrams.size(); ++i) { if (i) o << ","; o << std::hex << r.st.trigrams[i] << std::dec; }
    return o.str();
}
static std::string one_line(std::string s) { for (char &c : s) if (c == '\n' || c == '\r') c = ' '; if (s.size() > 600) s.resize(600); return s; }

// ------------------------------------------------------------------ execute one plan in a fresh child process
struct ChildOut { int status = 0; bool violation = false, inconclusive = false; std::string cls, detail; uint64_t loghash = 0; int at_op = -1; std::string stderr_txt; bool timed_out = false; };

static void nonterm_exit() {
    static const char msg[] = "OVMSIM-NONTERMINATION step budget exhausted without progress\n";
    (void)!write(2, msg, sizeof msg - 1);
    _exit(78);
}

static std::string classify_crash(const std::string &prop, const ChildOut &c) {
    const std::string &e = c.stderr_txt;
    std::string kind = "crash";
    if (c.timed_out) return prop + "/nontermination:cpu";
    {   // FROZEN world: a const call wrote to frozen memory
        size_t w = e.find("OVMSIM-FROZEN-WRITE ");
        if (w != std::string::npos) {
            size_t o = e.find("op=", w), sp = e.find(" offset=", w);
            std::string op = o != std::string::npos && sp != std::string::npos ? e.substr(o + 3, sp - o - 3) : "?";
            std::string region = e.find("region=arena", w) != std::string::npos ? "arena" : "image";
            for (char &ch : op) if (ch == ' ') ch = '_';
            return prop + "/write-" + region + "@" + op;
        }
    }
    if (WIFEXITED(c.status) && WEXITSTATUS(c.status) == 78) kind = "nontermination";
    size_t p = e.find("ERROR: AddressSanitizer: ");
    if (p != std::string::npos) {
        size_t q = e.find_first_of(" \n", p + 25);
        kind = "asan:" + e.substr(p + 25, q - (p + 25));
    } else if ((p = e.find("runtime error: ")) != std::string::npos) {
        kind = "ubsan";
    } else if (WIFSIGNALED(c.status)) kind = "signal:" + std::to_string(WTERMSIG(c.status));
    else if (e.find("terminate called") != std::string::npos) kind = "terminate";
    // innermost frames inside OpenVolumeMesh, by function name (not line)
    std::string site;
    int found = 0;
    size_t pos = 0;
    while (found < 2 && (pos = e.find(" in ", pos)) != std::string::npos) {
        size_t s = pos + 4, t = e.find_first_of("\n", s);
        std::string fr = e.substr(s, t - s);
        pos = t == std::string::npos ? e.size() : t;
        if (fr.rfind("OpenVolumeMesh::", 0) != 0) continue;   // functions defined by the library, not std:: templates over its types
        std::string fn = fr.substr(16);
        size_t par = fn.find_first_of("(<");
        if (par != std::string::npos) fn.resize(par);
        size_t sp = fn.find(' ');
        if (sp != std::string::npos) fn.resize(sp);
        for (char &ch : fn) if (ch == ' ' || ch == '<' || ch == '>' || ch == ',') ch = '_';
        if (!site.empty()) site += "<-";
        site += fn;
        ++found;
    }
    return prop + "/" + kind + (site.empty() ? "" : "@" + site);
}

static ChildOut run_in_child(World *w, const Plan &plan, double timeout_s = -1) {
    if (timeout_s < 0) timeout_s = g_cpu_replay;
    ChildOut out;
    int pr[2], pe[2];
    if (pipe(pr) || pipe(pe)) { perror("pipe"); exit(2); }
    fflush(stdout); fflush(stderr);
    pid_t pid = fork();
    if (pid == 0) {
        close(pr[0]); close(pe[0]);
        dup2(pe[1], 2);
        g_on_nontermination = nonterm_exit;
        { struct rlimit rl; rl.rlim_cur = rl.rlim_max = (rlim_t)(timeout_s * 2); setrlimit(RLIMIT_CPU, &rl); }   // inherited by a world's own sub-process (FROZEN)
        RunResult r = w->execute(plan);
        std::ostringstream o;
        o << (r.violation ? "V" : r.inconclusive ? "I" : "O") << " " << std::hex << r.loghash << std::dec << " " << r.at_op << " " << (r.cls.empty() ? "-" : r.cls) << " " << one_line(r.detail) << "\n";
        std::string s = o.str();
        (void)!write(pr[1], s.data(), s.size());
        _exit(0);
    }
    close(pr[1]); close(pe[1]);
    std::string so;
    double t0 = now_s();
    struct pollfd fds[2] = {{pr[0], POLLIN, 0}, {pe[0], POLLIN, 0}};
    int open_fds = 2;
    while (open_fds > 0) {
        int rc = poll(fds, 2, 200);
        if (rc < 0 && errno != EINTR) break;
        for (int i = 0; i < 2; ++i) if (fds[i].fd >= 0 && (fds[i].revents & (POLLIN | POLLHUP))) {
            char buf[8192];
            ssize_t n = read(fds[i].fd, buf, sizeof buf);
            if (n > 0) { std::string &dst = i == 0 ? so : out.stderr_txt; if (dst.size() < (1 << 20)) dst.append(buf, n); }
            else { close(fds[i].fd); fds[i].fd = -1; --open_fds; }
        }
        if (cpu_s(pid) > timeout_s || now_s() - t0 > 30 * timeout_s) { kill(pid, SIGKILL); out.timed_out = true; break; }
    }
    for (auto &f : fds) if (f.fd >= 0) close(f.fd);
    waitpid(pid, &out.status, 0);
    if (!so.empty() && WIFEXITED(out.status) && WEXITSTATUS(out.status) == 0) {
        std::istringstream l(so);
        std::string v, cls;
        l >> v >> std::hex >> out.loghash >> std::dec >> out.at_op >> cls;
        std::getline(l, out.detail);
        out.violation = v == "V"; out.inconclusive = v == "I";
        out.cls = cls == "-" ? "" : cls;
    } else {
        out.violation = true;
        out.cls = classify_crash(plan.prop, out);
        size_t p = out.stderr_txt.find("ERROR:");
        if (p == std::string::npos) p = out.stderr_txt.find("runtime error");
        out.detail = one_line(p == std::string::npos ? out.stderr_txt.substr(0, 300) : out.stderr_txt.substr(p, 400));
        size_t fn = out.stderr_txt.rfind("OVMSIM-FAULT ");
        if (fn != std::string::npos) out.detail = one_line(out.stderr_txt.substr(fn, out.stderr_txt.find('\n', fn) - fn)) + " :: " + out.detail;
        out.loghash = fnv1a(out.cls);
    }
    return out;
}

// ------------------------------------------------------------------ shrinking (same violation class only)
static Plan shrink_plan(World *w, Plan plan, const std::string &cls, long &trials) {
    double t0 = now_s();
    auto fails = [&](const Plan &p) {
        if (trials >= 400 || now_s() - t0 > 20) return false;
        ++trials;
        ChildOut c = run_in_child(w, p, 30);
        return c.violation && c.cls == cls;
    };
    // cut the tail behind the failing op first
    {
        ChildOut c = run_in_child(w, plan, 30);
        if (c.violation && c.cls == cls && c.at_op >= 0 && c.at_op + 1 < (int)plan.ops.size()) {
            Plan t = plan; t.ops.resize(c.at_op + 1);
            if (fails(t)) plan = t;
        }
    }
    size_t chunk = std::max<size_t>(1, plan.ops.size() / 2);
    while (chunk >= 1 && !plan.ops.empty()) {
        bool any = false;
        for (size_t start = 0; start < plan.ops.size();) {
            Plan t = plan;
            size_t end = std::min(plan.ops.size(), start + chunk);
            t.ops.erase(t.ops.begin() + start, t.ops.begin() + end);
            if (fails(t)) { plan = t; any = true; }
            else start += chunk;
        }
        if (chunk == 1 && !any) break;
        if (!any) chunk /= 2;
        if (chunk < 1) chunk = 1;
    }
    // argument simplification: smaller integers
    for (size_t i = 0; i < plan.ops.size(); ++i)
        for (int j = 0; j < 4; ++j) {
            if (plan.ops[i].a[j] < 8) continue;
            for (int cand : {0, 1, plan.ops[i].a[j] % 8, plan.ops[i].a[j] % 64}) {
                if (cand >= plan.ops[i].a[j]) continue;
                Plan t = plan; t.ops[i].a[j] = cand;
                if (fails(t)) { plan = t; break; }
            }
        }
    return plan;
}

// ------------------------------------------------------------------ known findings
struct Known { std::string prop, cls, text; };
static std::vector<Known> load_known(const std::string &path) {
    std::vector<Known> k;
    std::ifstream f(path);
    std::string line;
    while (std::getline(f, line)) {
        if (line.rfind("finding:", 0) != 0) continue;   // "fixed:" entries suppress nothing
        Known e;
        std::istringstream l(line.substr(8));
        std::string tok;
        while (l >> tok) {
            if (tok.rfind("property=", 0) == 0) e.prop = tok.substr(9);
            else if (tok.rfind("class=", 0) == 0) e.cls = tok.substr(6);
            else { e.text = tok; std::string rest; std::getline(l, rest); e.text += rest; break; }
        }
        if (!e.cls.empty()) k.push_back(e);
    }
    return k;
}

// ------------------------------------------------------------------ batch
struct Agg {
    std::map<std::string, long> n;
    std::unordered_set<uint64_t> nontrivial, trigrams;
    long runs = 0, inconclusive = 0;
    std::map<std::string, long> inconclusive_why;
    std::vector<std::string> samples;
};

struct Candidate { uint64_t index; std::string cls; bool crashed; bool watchdog = false; };

static int cmd_run(int argc, char **argv) {
    std::string prop, tier = "quick", evidence, replays = "replays", known = "known_findings.txt";
    uint64_t master = 1;
    if (const char *e = getenv("VERIF_SEED")) master = strtoull(e, nullptr, 10);
    if (const char *e = getenv("VERIF_TIER")) tier = e;
    double budget = -1;
    long max_runs = -1;
    int workers = 8;
    for (int i = 2; i < argc; ++i) {
        std::string a = argv[i];
        auto nxt = [&]() { return i + 1 < argc ? std::string(argv[++i]) : std::string(); };
        if (a == "--prop") prop = nxt();
        else if (a == "--tier") tier = nxt();
        else if (a == "--seed") master = strtoull(nxt().c_str(), nullptr, 10);
        else if (a == "--evidence") evidence = nxt();
        else if (a == "--replays") replays = nxt();
        else if (a == "--known") known = nxt();
        else if (a == "--budget") budget = atof(nxt().c_str());
        else if (a == "--runs") max_runs = atol(nxt().c_str());
        else if (a == "--workers") workers = atoi(nxt().c_str());
    }
    const PropInfo *pi = prop_info(prop);
    if (!pi) { fprintf(stderr, "unknown property %s\n", prop.c_str()); return 2; }
    bool thorough = tier == "thorough";
    if (budget < 0) budget = thorough ? 600 : 45;
    if (thorough) { g_cpu_worker = 600; g_cpu_replay = 1800; }
    World *w = make_world(prop);
    if (!w) { fprintf(stderr, "world %s not in this binary\n", pi->world); return 2; }
    double t_start = now_s();
    printf("ovmsim prop=%s world=%s tier=%s seed=%llu workers=%d budget=%.0fs\n", prop.c_str(), pi->world, tier.c_str(), (unsigned long long)master, workers, budget);
    fflush(stdout);

    struct Worker { pid_t pid = -1; int fd = -1; uint64_t next = 0; std::string buf; long cur = -1; double last_io = 0, cpu0 = 0; bool done = false; bool killed_by_watchdog_stop = false; bool watchdog_fired = false; };
    bool stopping = false;
    std::vector<Worker> ws(workers);
    Agg agg;
    std::vector<Candidate> cands;
    auto spawn = [&](int wi) {
        int p[2];
        if (pipe(p)) { perror("pipe"); exit(2); }
        fflush(stdout); fflush(stderr);
        pid_t pid = fork();
        if (pid == 0) {
            close(p[0]);
            for (auto &o : ws) if (o.fd >= 0) close(o.fd);
            int devnull = open("/dev/null", O_WRONLY);
            if (devnull >= 0) dup2(devnull, 2);
            g_on_nontermination = nonterm_exit;
            FILE *out = fdopen(p[1], "w");
            for (uint64_t i = ws[wi].next;; i += workers) {
                if (max_runs >= 0 && (long)i >= max_runs) break;
                if (now_s() - t_start > budget) break;
                uint64_t seed = run_seed(master, prop, i);
                Plan plan = w->generate(prop, seed, thorough);
                fprintf(out, "B %llu\n", (unsigned long long)i);
                fflush(out);
                double c0 = self_cpu_s();
                RunResult r = w->execute(plan);
                r.st.n["max_run_cpu_ms"] = (long)((self_cpu_s() - c0) * 1000);
                fprintf(out, "E %llu %s %llx %s %d %s | %s\n", (unsigned long long)i, r.violation ? "V" : r.inconclusive ? "I" : "O",
                        (unsigned long long)r.loghash, r.cls.empty() ? "-" : r.cls.c_str(), r.at_op, stats_line(r).c_str(), one_line(r.detail).c_str());
                fflush(out);
            }
            fprintf(out, "D\n");
            fflush(out);
            _exit(0);
        }
        close(p[1]);
        ws[wi].pid = pid; ws[wi].fd = p[0]; ws[wi].buf.clear(); ws[wi].cur = -1; ws[wi].last_io = now_s(); ws[wi].done = false;
    };
    for (int i = 0; i < workers; ++i) { ws[i].next = i; spawn(i); }
    auto handle_line = [&](Worker &wk, const std::string &line) {
        if (line[0] == 'B') { wk.cur = atol(line.c_str() + 2); wk.cpu0 = cpu_s(wk.pid); return; }
        if (line[0] == 'D') { wk.done = true; return; }
        if (line[0] != 'E') return;
        std::istringstream l(line.substr(2));
        uint64_t idx, lh; std::string v, cls, kv, nts, tris; int at;
        l >> idx >> v >> std::hex >> lh >> std::dec >> cls >> at >> kv >> nts >> tris;
        wk.cur = -1; wk.next = idx + workers;
        agg.runs++;
        if (kv != "-") { std::istringstream k(kv); std::string item; while (std::getline(k, item, ';')) { auto e = item.find('='); if (e != std::string::npos) { std::string key = item.substr(0, e); long val = atol(item.c_str() + e + 1); if (key.rfind("max_", 0) == 0) agg.n[key] = std::max(agg.n[key], val); else agg.n[key] += val; } } }
        if (nts != "-") { std::istringstream k(nts); std::string item; while (std::getline(k, item, ',')) agg.nontrivial.insert(strtoull(item.c_str(), nullptr, 16)); }
        if (tris != "-") { std::istringstream k(tris); std::string item; while (std::getline(k, item, ',')) agg.trigrams.insert(strtoull(item.c_str(), nullptr, 16)); }
        if (v == "V") cands.push_back({idx, cls, false});
        if (v == "I") { agg.inconclusive++; std::string why; size_t bar = line.find(" | "); if (bar != std::string::npos) why = line.substr(bar + 3); std::istringstream ww(why); std::string first; ww >> first; agg.inconclusive_why[first]++; }
    };
    int alive = workers;
    while (alive > 0) {
        std::vector<struct pollfd> fds;
        std::vector<int> map;
        for (int i = 0; i < workers; ++i) if (ws[i].fd >= 0) { fds.push_back({ws[i].fd, POLLIN, 0}); map.push_back(i); }
        if (fds.empty()) break;
        poll(fds.data(), fds.size(), 500);
        for (size_t j = 0; j < fds.size(); ++j) {
            Worker &wk = ws[map[j]];
            if (fds[j].revents & (POLLIN | POLLHUP)) {
                char buf[65536];
                ssize_t n = read(wk.fd, buf, sizeof buf);
                if (n > 0) {
                    wk.last_io = now_s();
                    wk.buf.append(buf, n);
                    size_t nl;
                    while ((nl = wk.buf.find('\n')) != std::string::npos) { std::string line = wk.buf.substr(0, nl); wk.buf.erase(0, nl + 1); if (!line.empty()) handle_line(wk, line); }
                } else {
                    close(wk.fd); wk.fd = -1;
                    int status = 0;
                    waitpid(wk.pid, &status, 0);
                    if (!wk.done && wk.cur >= 0 && !stopping && !wk.killed_by_watchdog_stop) {   // died inside a run: sanitizer report, signal, step budget
                        cands.push_back({(uint64_t)wk.cur, "", true, wk.watchdog_fired});
                        wk.watchdog_fired = false;
                        agg.runs++;
                        agg.n["worker_restarts"]++;
                        wk.next = wk.cur + workers;
                        if (cands.size() < 40 && now_s() - t_start < budget) { spawn(map[j]); continue; }
                    }
                    --alive;
                }
            } else if (wk.cur >= 0 && now_s() - wk.last_io > 5 && (cpu_s(wk.pid) - wk.cpu0 > g_cpu_worker || now_s() - wk.last_io > 2700)) {
                wk.watchdog_fired = true;
                kill(wk.pid, SIGKILL);  // hang watchdog (non-IO code has no step clock); confirmed by replay below
            }
        }
        if (cands.size() >= 40 && !stopping) { stopping = true; for (auto &wk : ws) if (wk.fd >= 0) kill(wk.pid, SIGKILL); }
    }
    double t_search = now_s() - t_start;

    // ---- gate, shrink, report
    std::vector<Known> kn = load_known(known);
    std::map<std::string, std::string> reported;  // class -> replay path
    int new_violations = 0, known_hits = 0, nondeterminism = 0;
    std::sort(cands.begin(), cands.end(), [](const Candidate &a, const Candidate &b) { return a.index < b.index; });
    mkdir(replays.c_str(), 0755);
    int gated = 0;
    for (auto &c : cands) {
        if (gated >= 10 || now_s() - t_start > budget + (thorough ? 900 : 240)) break;
        if (!c.cls.empty() && reported.count(c.cls)) continue;
        uint64_t seed = run_seed(master, prop, c.index);
        Plan plan = w->generate(prop, seed, thorough);
        ChildOut a = run_in_child(w, plan), b = run_in_child(w, plan);
        ++gated;
        if (c.watchdog && !a.violation && !b.violation && a.loghash == b.loghash) { agg.n["slow_runs_cut_by_worker_watchdog"]++; continue; }   // slow, not hanging: finished within the larger allowance
        if (!a.violation || !b.violation || a.cls != b.cls || a.loghash != b.loghash || (!c.cls.empty() && a.cls != c.cls)) {
            printf("NONDETERMINISM prop=%s index=%llu seed=%llu first=%s/%llx second=%s/%llx worker=%s\n", prop.c_str(), (unsigned long long)c.index,
                   (unsigned long long)seed, a.cls.c_str(), (unsigned long long)a.loghash, b.cls.c_str(), (unsigned long long)b.loghash, c.cls.c_str());
            ++nondeterminism;
            continue;
        }
        if (reported.count(a.cls)) continue;
        long trials = 0;
        const Known *hit0 = nullptr;
        for (auto &k : kn) if (k.cls == a.cls && (k.prop.empty() || k.prop == prop)) hit0 = &k;
        bool post_budget_left = now_s() - t_start < budget + (thorough ? 600 : 150);
        Plan small = (hit0 || !post_budget_left) ? plan : shrink_plan(w, plan, a.cls, trials);
        ChildOut fin = run_in_child(w, small);
        if (!fin.violation || fin.cls != a.cls) { small = plan; fin = a; }
        small.expect_class = a.cls;
        std::string fname = a.cls;
        for (char &ch : fname) if (ch == '/' || ch == ':' || ch == '@' || ch == '<' || ch == '>' || ch == ' ') ch = '_';
        if (fname.size() > 120) fname.resize(120);
        std::string path = replays + "/" + fname + "-" + std::to_string(seed) + ".plan";
        { std::ofstream f(path); f << plan_to_text(small); f << "# detail: " << one_line(fin.detail) << "\n# original ops: " << plan.ops.size() << " shrunk to " << small.ops.size() << " in " << trials << " re-executions\n"; }
        reported[a.cls] = path;
        const Known *hit = nullptr;
        for (auto &k : kn) if (k.cls == a.cls && (k.prop.empty() || k.prop == prop)) hit = &k;
        if (hit) { printf("KNOWN-FINDING: property=%s class=%s %s (replay=%s)\n", prop.c_str(), a.cls.c_str(), hit->text.c_str(), path.c_str()); ++known_hits; }
        else { printf("VIOLATION property=%s replay=%s class=%s ops=%zu detail=%s\n", prop.c_str(), path.c_str(), a.cls.c_str(), small.ops.size(), one_line(fin.detail).c_str()); ++new_violations; }
        fflush(stdout);
    }
    // listed findings that did not show up in this batch are still announced (they are properties of the tree, not of the seed)
    for (auto &k : kn) if (k.prop == prop && !reported.count(k.cls)) printf("KNOWN-FINDING: property=%s class=%s %s (not re-encountered by this batch)\n", prop.c_str(), k.cls.c_str(), k.text.c_str());

    // ---- evidence
    double wall = now_s() - t_start;
    // a few actual cases
    for (uint64_t i = 0; i < 3; ++i) {
        Plan p = w->generate(prop, run_seed(master, prop, i), thorough);
        std::ostringstream o;
        o << "seed=" << p.seed << " kernel=" << p.kernel << " cfg{";
        for (auto &kv : p.cfg) o << kv.first << "=" << kv.second << " ";
        o << "} ops:";
        for (size_t j = 0; j < p.ops.size() && j < 14; ++j) o << " " << op_text(p.ops[j]);
        if (p.ops.size() > 14) o << " ... (" << p.ops.size() << " ops)";
        agg.samples.push_back(o.str());
    }
    if (!evidence.empty()) {
        std::ofstream f(evidence + ".tmp");
        f << "{\n \"property_id\": \"" << prop << "\",\n \"tier\": \"" << tier << "\",\n \"seed\": " << master << ",\n \"level\": \"" << pi->level << "\",\n";
        f << " \"wall_s\": " << wall << ",\n \"violations\": " << new_violations << ",\n";
        f << " \"coverage\": {\n";
        f << "  \"evaluations\": " << agg.runs << ",\n  \"distinct_nontrivial\": " << agg.nontrivial.size() << ",\n";
        f << "  \"rule\": \"" << jesc(w->rule(prop)) << "\",\n";
        f << "  \"samples\": [";
        for (size_t i = 0; i < agg.samples.size(); ++i) f << (i ? ",\n   " : "\n   ") << "\"" << jesc(agg.samples[i]) << "\"";
        f << "\n  ],\n";
        f << "  \"world\": \"" << pi->world << "\",\n";
        f << "  \"search_wall_s\": " << t_search << ",\n";
        f << "  \"runs_per_hour\": " << (long)(agg.runs / std::max(0.001, t_search) * 3600) << ",\n  \"seeds_per_hour\": " << (long)(agg.runs / std::max(0.001, t_search) * 3600) << ",\n";
        f << "  \"workers\": " << workers << ",\n";
        f << "  \"distinct_interleavings_client_trigrams\": " << agg.trigrams.size() << ",\n";
        f << "  \"inconclusive_runs\": " << agg.inconclusive << ",\n  \"inconclusive_reasons\": {";
        { bool first = true; for (auto &kv : agg.inconclusive_why) { f << (first ? "" : ", ") << "\"" << jesc(kv.first) << "\": " << kv.second; first = false; } }
        f << "},\n";
        f << "  \"known_findings_hit\": " << known_hits << ",\n  \"nondeterminism\": " << nondeterminism << ",\n";
        f << "  \"simulated_steps\": " << (agg.n.count("sim_steps") ? agg.n["sim_steps"] : 0) << ",\n";
        auto group = [&](const char *name, const char *prefix, bool strip) {
            f << "  \"" << name << "\": {";
            bool first = true;
            for (auto &kv : agg.n) if (kv.first.rfind(prefix, 0) == 0) { f << (first ? "" : ", ") << "\"" << jesc(strip ? kv.first.substr(strlen(prefix)) : kv.first) << "\": " << kv.second; first = false; }
            f << "},\n";
        };
        group("ops_by_kind", "op_", true);
        group("faults_fired", "fault_", true);
        group("probes", "probe_", true);
        f << "  \"counters\": {";
        { bool first = true; for (auto &kv : agg.n) if (kv.first.rfind("op_", 0) && kv.first.rfind("fault_", 0) && kv.first.rfind("probe_", 0)) { f << (first ? "" : ", ") << "\"" << jesc(kv.first) << "\": " << kv.second; first = false; } }
        f << "},\n";
        f << "  \"real_components\": [\"TopologyKernel\", \"ResourceManager\", \"PropertyStorage\", \"Tet/Hex kernels\", \"iterators\", \"StatusAttrib\", \"OVMB reader/writer\", \"ASCII FileManager\", \"codecs\"],\n";
        f << "  \"stub_components\": [\"streambuf/disk image\", \"operator new\", \"WriteBuffer preallocation knob\", \"step clock\"]\n";
        f << " },\n";
        f << " \"assumptions\": [\"sampling, not proof: a clean batch is evidence\", \"bounds: meshes <= ~50 vertices (fans up to 40 cells around one edge; width-boundary meshes 255..257 and, thorough C06 only, 65535..65537), plans <= ~120 ops, <= 3 replicas\", "
             "\"ASan+UBSan subset with libstdc++ container annotations; library built -O1 -DNDEBUG\", \"valid-argument generators define the precondition space\"]\n";
        f << "}\n";
        f.close();
        rename((evidence + ".tmp").c_str(), evidence.c_str());
    }
    printf("SUMMARY prop=%s runs=%ld distinct_nontrivial=%zu inconclusive=%ld candidates=%zu new_violations=%d known=%d nondeterminism=%d wall=%.1fs\n",
           prop.c_str(), agg.runs, agg.nontrivial.size(), agg.inconclusive, cands.size(), new_violations, known_hits, nondeterminism, wall);
    for (auto &kv : agg.n) if (kv.first.rfind("probe_", 0) == 0 && kv.second == 0) printf("WARNING probe %s stuck at zero\n", kv.first.c_str());
    if (nondeterminism) return 2;
    return new_violations ? 1 : 0;
}

static int cmd_replay(int argc, char **argv) {
    if (argc < 3) return 2;
    std::ifstream f(argv[2]);
    std::stringstream ss; ss << f.rdbuf();
    Plan p; std::string err;
    if (!plan_from_text(ss.str(), p, err)) { fprintf(stderr, "cannot parse %s: %s\n", argv[2], err.c_str()); return 2; }
    World *w = make_world(p.prop);
    if (!w) return 2;
    bool inproc = argc > 3 && std::string(argv[3]) == "--in-process";
    if (inproc) {
        g_on_nontermination = nonterm_exit;
        RunResult r = w->execute(p);
        printf("RESULT %s class=%s at_op=%d loghash=%llx detail=%s\n", r.violation ? "VIOLATION" : r.inconclusive ? "INCONCLUSIVE" : "OK", r.cls.c_str(), r.at_op, (unsigned long long)r.loghash, one_line(r.detail).c_str());
        return r.violation ? 1 : 0;
    }
    ChildOut a = run_in_child(w, p), b = run_in_child(w, p);
    printf("RESULT %s class=%s at_op=%d loghash=%llx detail=%s\n", a.violation ? "VIOLATION" : a.inconclusive ? "INCONCLUSIVE" : "OK", a.cls.c_str(), a.at_op, (unsigned long long)a.loghash, a.detail.c_str());
    if (a.cls != b.cls || a.loghash != b.loghash) { printf("NONDETERMINISM second=%s/%llx\n", b.cls.c_str(), (unsigned long long)b.loghash); return 2; }
    if (a.violation) { printf("VIOLATION property=%s replay=%s class=%s\n", p.prop.c_str(), argv[2], a.cls.c_str()); if (!p.expect_class.empty() && p.expect_class != a.cls) printf("NOTE expected class %s\n", p.expect_class.c_str()); return 1; }
    return 0;
}

// determinism self-test: every seed executed in two different processes (and two worker layouts) must give the same log hash
static int cmd_selftest(int argc, char **argv) {
    long n = argc > 2 ? atol(argv[2]) : 200;
    int bad = 0; long total = 0;
    for (auto &pi : PROPS) {
        World *w = make_world(pi.id);
        if (!w) continue;
        // the same plans executed back to back inside ONE process (what a batch worker does): state leaking from run to run,
        // or a verdict that depends on heap address order, shows up as a different log hash
        std::vector<uint64_t> seq((size_t)n, 0);
        {
            int p[2];
            if (pipe(p)) return 2;
            fflush(stdout);
            pid_t pid = fork();
            if (pid == 0) {
                close(p[0]);
                int devnull = open("/dev/null", O_WRONLY); if (devnull >= 0) dup2(devnull, 2);
                g_on_nontermination = nonterm_exit;
                for (long i = 0; i < n; ++i) { Plan pl = w->generate(pi.id, run_seed(7, pi.id, i), false); RunResult r = w->execute(pl); uint64_t h = r.loghash ^ fnv1a(r.cls); (void)!write(p[1], &h, sizeof h); }
                _exit(0);
            }
            close(p[1]);
            for (long i = 0; i < n; ++i) if (read(p[0], &seq[(size_t)i], sizeof(uint64_t)) != (ssize_t)sizeof(uint64_t)) break;
            close(p[0]);
            int st; waitpid(pid, &st, 0);
        }
        for (long i = 0; i < n; ++i) {
            Plan p = w->generate(pi.id, run_seed(7, pi.id, i), false);
            ChildOut a = run_in_child(w, p), b = run_in_child(w, p);
            ++total;
            if (!a.violation && seq[(size_t)i] && seq[(size_t)i] != (a.loghash ^ fnv1a(a.cls))) { printf("NONDETERMINISM prop=%s i=%ld: log hash inside a multi-run worker differs from the fresh-process run\n", pi.id, i); ++bad; }
            if (a.cls != b.cls || a.loghash != b.loghash || a.violation != b.violation) { printf("NONDETERMINISM prop=%s i=%ld %s/%llx vs %s/%llx\n", pi.id, i, a.cls.c_str(), (unsigned long long)a.loghash, b.cls.c_str(), (unsigned long long)b.loghash); ++bad; }
        }
    }
    printf("selftest: %ld plans executed twice in fresh processes, %d mismatches\n", total, bad);
    return bad ? 2 : 0;
}

static int cmd_loghashes(int argc, char **argv) {  // ovmsim loghashes <prop> <n> <stride> <offset>: in-process, for cross-layout diffs
    if (argc < 4) return 2;
    std::string prop = argv[2];
    long n = atol(argv[3]);
    World *w = make_world(prop);
    if (!w) return 2;
    g_on_nontermination = nonterm_exit;
    for (long i = 0; i < n; ++i) {
        Plan p = w->generate(prop, run_seed(7, prop, i), false);
        RunResult r = w->execute(p);
        printf("%ld %llx %s\n", i, (unsigned long long)r.loghash, r.violation ? r.cls.c_str() : (r.inconclusive ? "I" : "O"));
    }
    return 0;
}

int main(int argc, char **argv) {
    // ASLR off: heap address order (iteration order of address-ordered containers) stays a function of the run, not of the process
    if (!getenv("OVMSIM_NO_REEXEC")) {
        int pers = personality(0xffffffff);
        if (pers != -1 && !(pers & ADDR_NO_RANDOMIZE)) {
            if (personality(pers | ADDR_NO_RANDOMIZE) != -1) { setenv("OVMSIM_NO_REEXEC", "1", 1); execv("/proc/self/exe", argv); }
        }
    }
    signal(SIGPIPE, SIG_IGN);
    if (const char *e = getenv("OVMSIM_SCRATCH")) g_scratch_dir = e;
    mkdir(g_scratch_dir.c_str(), 0755);
    { char rp[4096]; if (realpath(g_scratch_dir.c_str(), rp)) g_scratch_dir = rp; }   // the syscall seam recognises its file by the /proc/self/fd link, i.e. the canonical path
    if (argc < 2) { fprintf(stderr, "usage: ovmsim run|replay|selftest ...\n"); return 2; }
    std::string cmd = argv[1];
    if (cmd == "run") return cmd_run(argc, argv);
    if (cmd == "replay") return cmd_replay(argc, argv);
    if (cmd == "selftest") return cmd_selftest(argc, argv);
    if (cmd == "loghashes") return cmd_loghashes(argc, argv);
    fprintf(stderr, "unknown command %s\n", cmd.c_str());
    return 2;
}
