// Batteries C08 (mirror algebra), C10 (lookups), C09 (fan order, in-cell adjacency)
#pragma once
#include "batteries.hh"

namespace sim {

inline std::vector<int> rev_opp(const std::vector<int> &h) { std::vector<int> o(h.rbegin(), h.rend()); for (int &x : o) x ^= 1; return o; }
inline bool has_repeat(std::vector<int> v) { std::sort(v.begin(), v.end()); return std::adjacent_find(v.begin(), v.end()) != v.end(); }
inline std::vector<int> rotate_to(std::vector<int> v, size_t k) { std::rotate(v.begin(), v.begin() + (k % v.size()), v.end()); return v; }

// ------------------------------------------------------------------ C08
template <class M> void battery_c08(const M &m, const Ctx &ctx, RunStats &st, uint64_t digest) {
    const std::vector<std::string> OW = {"C08"};
    Brute b = brute_of(m);
    long n = 0;
    auto probe_handles = [&](int idx) {
        EdgeHandle e(idx); FaceHandle f(idx);
        for (int s = 0; s < 2; ++s) {
            HalfEdgeHandle h = M::halfedge_handle(e, (unsigned char)s);
            if (h.idx() != 2 * idx + s || M::edge_handle(h) != e || h.edge_handle() != e || e.halfedge_handle(s) != h || h.subidx() != s)
                ctx.fail(OW, "conversion", "edge<->halfedge at index " + std::to_string(idx));
            HalfEdgeHandle o = M::opposite_halfedge_handle(h);
            if (o.idx() != (h.idx() ^ 1) || o != h.opposite_handle() || M::opposite_halfedge_handle(o) != h || M::edge_handle(o) != e || o.subidx() != 1 - s)
                ctx.fail(OW, "conversion", "opposite halfedge at index " + std::to_string(idx));
            HalfFaceHandle hf = M::halfface_handle(f, (unsigned char)s);
            if (hf.idx() != 2 * idx + s || M::face_handle(hf) != f || hf.face_handle() != f || f.halfface_handle(s) != hf || hf.subidx() != s)
                ctx.fail(OW, "conversion", "face<->halfface at index " + std::to_string(idx));
            HalfFaceHandle of = M::opposite_halfface_handle(hf);
            if (of.idx() != (hf.idx() ^ 1) || of != hf.opposite_handle() || M::opposite_halfface_handle(of) != hf || M::face_handle(of) != f)
                ctx.fail(OW, "conversion", "opposite halfface at index " + std::to_string(idx));
        }
        ++n;
    };
    for (int i : {0, 1, 2, 3, 254, 255, 256, 65535, 65536, (1 << 24) + 1, (1 << 30) - 2, (1 << 30) - 1}) probe_handles(i);
    Rng pr(digest);
    for (int i = 0; i < 16; ++i) probe_handles((int)pr.below(1u << 30));
    for (int e = 0; e < b.ne; ++e) if (b.elive[e]) {
        probe_handles(e);
        for (int s = 0; s < 2; ++s) {
            HalfEdgeHandle h(2 * e + s);
            auto he = m.halfedge(h), op = m.opposite_halfedge(h);
            if (he.from_vertex() != op.to_vertex() || he.to_vertex() != op.from_vertex()) ctx.fail(OW, "edge-mirror", "halfedge " + std::to_string(h.idx()));
            if (m.from_vertex_handle(h) != he.from_vertex() || m.to_vertex_handle(h) != he.to_vertex()) ctx.fail(OW, "edge-mirror", "from/to_vertex_handle " + std::to_string(h.idx()));
            if (he.from_vertex().idx() != b.from(h.idx()) || he.to_vertex().idx() != b.to(h.idx())) ctx.fail(OW, "edge-mirror", "halfedge() vs edge() " + std::to_string(h.idx()));
            auto hv = m.halfedge_vertices(h);
            if (hv[0] != he.from_vertex() || hv[1] != he.to_vertex()) ctx.fail(OW, "edge-mirror", "halfedge_vertices");
        }
    }
    bool any_face = false;
    for (int f = 0; f < b.nf; ++f) if (b.flive[f]) {
        any_face = true;
        probe_handles(f);
        const std::vector<int> &h0 = b.F[f];
        std::vector<int> g0, g1, o0, o1;
        for (auto x : m.halfface(HalfFaceHandle(2 * f)).halfedges()) g0.push_back(x.idx());
        for (auto x : m.halfface(HalfFaceHandle(2 * f + 1)).halfedges()) g1.push_back(x.idx());
        for (auto x : m.opposite_halfface(HalfFaceHandle(2 * f)).halfedges()) o0.push_back(x.idx());
        for (auto x : m.opposite_halfface(HalfFaceHandle(2 * f + 1)).halfedges()) o1.push_back(x.idx());
        std::string w = "face " + std::to_string(f);
        if (g0 != h0) ctx.fail(OW, "face-mirror", w + " halfface(side 0) != face()");
        if (g1 != rev_opp(h0)) ctx.fail(OW, "face-mirror", w + " halfface(side 1) " + vec_str(g1) + " is not the reversed list of opposite halfedges " + vec_str(rev_opp(h0)));
        if (o0 != g1 || o1 != g0) ctx.fail(OW, "face-mirror", w + " opposite_halfface");
        // closed loop
        for (size_t i = 0; i < h0.size(); ++i)
            if (b.to(h0[i]) != b.from(h0[(i + 1) % h0.size()])) ctx.fail(OW, "closed-loop", w + " halfedge " + std::to_string(i) + " does not end where the next begins");
        // circulators of the two sides: same cycle, opposite directions
        for (int s = 0; s < 2; ++s) {
            HalfFaceHandle hf(2 * f + s);
            std::vector<int> hes = s ? rev_opp(h0) : h0;
            std::vector<int> vs, es;
            for (int x : hes) { vs.push_back(b.from(x)); es.push_back(x / 2); }
            if (drain(m.hfhe_iter(hf)) != hes) ctx.fail(OW, "circ-halfface_halfedges", w + " side " + std::to_string(s));
            if (drain(m.hfv_iter(hf)) != vs) ctx.fail(OW, "circ-halfface_vertices", w + " side " + std::to_string(s) + " got " + vec_str(drain(m.hfv_iter(hf))) + " want " + vec_str(vs));
            if (drain(m.hfe_iter(hf)) != es) ctx.fail(OW, "circ-halfface_edges", w + " side " + std::to_string(s));
            if (!has_repeat(hes)) {
                for (size_t i = 0; i < hes.size(); ++i) {
                    HalfEdgeHandle h(hes[i]);
                    HalfEdgeHandle nx = m.next_halfedge_in_halfface(h, hf), pv = m.prev_halfedge_in_halfface(h, hf);
                    if (nx.idx() != hes[(i + 1) % hes.size()] || pv.idx() != hes[(i + hes.size() - 1) % hes.size()]) ctx.fail(OW, "next-prev", w + " side " + std::to_string(s) + " at " + std::to_string(i));
                    if (m.prev_halfedge_in_halfface(nx, hf) != h || m.next_halfedge_in_halfface(pv, hf) != h) ctx.fail(OW, "next-prev", w + " not inverse");
                }
            }
        }
        if (drain(m.fhe_iter(FaceHandle(f))) != h0) ctx.fail(OW, "circ-face_halfedges", w);
        { std::vector<int> vs, es; for (int x : h0) { vs.push_back(b.from(x)); es.push_back(x / 2); }
          if (drain(m.fv_iter(FaceHandle(f))) != vs) ctx.fail(OW, "circ-face_vertices", w);
          if (drain(m.fe_iter(FaceHandle(f))) != es) ctx.fail(OW, "circ-face_edges", w); }
        if (h0.size() <= 2) st.add("probe_c08_degenerate_face");
    }
    st.add("c08_entities_checked", n);
    if (any_face) st.nt(digest);
}

// ------------------------------------------------------------------ C10
template <class M> void battery_c10(const M &m, const Ctx &ctx, RunStats &st, uint64_t digest) {
    const std::vector<std::string> OW = {"C10"};
    if (!m.has_full_bottom_up_incidences()) return;
    Brute b = brute_of(m);
    Rng rng(digest ^ 0x10);
    std::vector<int> lv, lf, lc;
    for (int v = 0; v < b.nv; ++v) if (b.vlive[v]) lv.push_back(v);
    for (int f = 0; f < b.nf; ++f) if (b.flive[f]) lf.push_back(f);
    for (int c = 0; c < b.nc; ++c) if (b.clive[c]) lc.push_back(c);
    if (lv.empty()) return;
    auto edges_between = [&](int a, int c) { int n = 0; for (int e = 0; e < b.ne; ++e) if (b.elive[e] && ((b.E[e].first == a && b.E[e].second == c) || (b.E[e].first == c && b.E[e].second == a))) ++n; return n; };
    auto vcycle = [&](int hf) { std::vector<int> v; for (int h : b.hf_hes(hf)) v.push_back(b.from(h)); return v; };
    long n = 0;
    // ---- find_halfedge: every ordered pair (sampled when large)
    size_t pairs = lv.size() * lv.size();
    for (size_t k = 0; k < std::min<size_t>(pairs, 150); ++k) {
        int a, c;
        if (pairs <= 150) { a = lv[k / lv.size()]; c = lv[k % lv.size()]; } else { a = lv[rng.below(lv.size())]; c = lv[rng.below(lv.size())]; }
        HalfEdgeHandle h = m.find_halfedge(VertexHandle(a), VertexHandle(c));
        if (m.halfedge(VertexHandle(a), VertexHandle(c)) != h) ctx.fail(OW, "deprecated-alias", "halfedge(v,v) differs from find_halfedge");
        int cnt = edges_between(a, c);
        if (h.is_valid()) {
            if (h.idx() >= 2 * b.ne || !b.elive[h.idx() / 2] || b.from(h.idx()) != a || b.to(h.idx()) != c) ctx.fail(OW, "find_halfedge-unsound", "(" + std::to_string(a) + "," + std::to_string(c) + ") -> " + std::to_string(h.idx()));
            if (!cnt) ctx.fail(OW, "find_halfedge-unsound", "no such edge");
        } else if (cnt) ctx.fail(OW, "find_halfedge-incomplete", "(" + std::to_string(a) + "," + std::to_string(c) + ") exists");
        ++n;
    }
    // ---- halfface lookups by vertices: tuples from faces (rotated, reversed, other face) and random tuples
    auto no_dup_edges = [&](const std::vector<int> &vs, size_t upto) { for (size_t i = 0; i + 1 < upto && i + 1 < vs.size(); ++i) if (edges_between(vs[i], vs[i + 1]) > 1) return false; return true; };
    auto consecutive_in = [&](int hf, int v0, int v1, int v2) {
        std::vector<int> c = vcycle(hf);
        for (size_t i = 0; i < c.size(); ++i) if (c[i] == v0 && c[(i + 1) % c.size()] == v1 && c[(i + 2) % c.size()] == v2) return true;
        return false;
    };
    std::vector<std::vector<int>> tuples;
    for (int t = 0; t < 10 && !lf.empty(); ++t) {
        int f = lf[rng.below(lf.size())];
        int side = (int)rng.below(2);
        std::vector<int> c = vcycle(2 * f + side);
        if (c.size() < 3) continue;
        c = rotate_to(c, rng.below(c.size()));
        tuples.push_back(c);
        std::vector<int> r(c.rbegin(), c.rend()); tuples.push_back(r);
        std::vector<int> x = c; x[rng.below(x.size())] = lv[rng.below(lv.size())]; tuples.push_back(x);     // one vertex replaced
        if (c.size() > 3) { std::vector<int> y = c; std::swap(y[2], y[3 % y.size()]); tuples.push_back(y); }   // wrong order beyond the third
        std::vector<int> sh(c.begin(), c.begin() + 3); if (c.size() > 3) tuples.push_back(sh);                 // shorter than the face
    }
    for (int t = 0; t < 6 && lv.size() >= 3; ++t) tuples.push_back({lv[rng.below(lv.size())], lv[rng.below(lv.size())], lv[rng.below(lv.size())]});
    for (auto &vs : tuples) {
        std::vector<VertexHandle> vv; for (int v : vs) vv.push_back(VertexHandle(v));
        // find_halfface: "only the first three vertices are checked"
        if (no_dup_edges(vs, 3)) {
            HalfFaceHandle r = m.find_halfface(vv);
            if (m.halfface(vv) != r || m.halfface_extensive(vv) != m.find_halfface_extensive(vv)) ctx.fail(OW, "deprecated-alias", "halfface(vertices) / halfface_extensive differ from find_*");
            bool exists = false, ambiguous = false;
            for (int f : lf) for (int s = 0; s < 2; ++s) { std::vector<int> c = vcycle(2 * f + s); if (has_repeat(c)) { ambiguous = true; continue; } if (consecutive_in(2 * f + s, vs[0], vs[1], vs[2])) exists = true; }
            if (r.is_valid()) {
                if (r.idx() >= 2 * b.nf || !b.flive[r.idx() / 2]) ctx.fail(OW, "find_halfface-unsound", "returned deleted/out-of-range halfface " + std::to_string(r.idx()));
                if (!has_repeat(vcycle(r.idx())) && !consecutive_in(r.idx(), vs[0], vs[1], vs[2])) ctx.fail(OW, "find_halfface-unsound", vec_str(vs) + " -> halfface " + std::to_string(r.idx()) + " with cycle " + vec_str(vcycle(r.idx())));
            } else if (exists && !ambiguous) ctx.fail(OW, "find_halfface-incomplete", vec_str(vs));
            ++n;
        }
        // find_halfface_extensive: all vertices, start point
        if (no_dup_edges(vs, vs.size())) {
            HalfFaceHandle r = m.find_halfface_extensive(vv);
            bool exists = false, ambiguous = false;
            for (int f : lf) for (int s = 0; s < 2; ++s) { std::vector<int> c = vcycle(2 * f + s); if (has_repeat(c)) { ambiguous = true; continue; } if (c.size() == vs.size()) for (size_t k = 0; k < c.size(); ++k) if (rotate_to(c, k) == vs) exists = true; }
            if (r.is_valid()) {
                if (r.idx() >= 2 * b.nf || !b.flive[r.idx() / 2]) ctx.fail(OW, "find_halfface_extensive-unsound", "deleted/out-of-range");
                std::vector<int> c = vcycle(r.idx());
                bool ok = false;
                if (c.size() == vs.size()) for (size_t k = 0; k < c.size(); ++k) if (rotate_to(c, k) == vs) ok = true;
                if (!ok && !has_repeat(c)) ctx.fail(OW, "find_halfface_extensive-unsound", vec_str(vs) + " -> cycle " + vec_str(c));
            } else if (exists && !ambiguous) ctx.fail(OW, "find_halfface_extensive-incomplete", vec_str(vs));
            ++n;
        }
        // in-cell variant on closed cells
        for (int t = 0; t < 2 && !lc.empty(); ++t) {
            int c = lc[rng.below(lc.size())];
            std::map<int, int> cnt; bool closed = true;
            for (int hf : b.C[c]) for (int h : b.hf_hes(hf)) cnt[h]++;
            for (auto &kv : cnt) if (kv.second != 1 || !cnt.count(kv.first ^ 1)) closed = false;
            bool simple = true;
            for (int hf : b.C[c]) if (has_repeat(vcycle(hf))) simple = false;
            std::set<int> fs; for (int hf : b.C[c]) fs.insert(hf / 2);
            if (!closed || !simple || fs.size() != b.C[c].size() || !no_dup_edges(vs, 3)) continue;
            HalfFaceHandle r = m.find_halfface_in_cell(vv, CellHandle(c));
            bool exists = false;
            for (int hf : b.C[c]) if (consecutive_in(hf, vs[0], vs[1], vs[2])) exists = true;
            if (r.is_valid()) {
                if (std::find(b.C[c].begin(), b.C[c].end(), r.idx()) == b.C[c].end() || !consecutive_in(r.idx(), vs[0], vs[1], vs[2])) ctx.fail(OW, "find_halfface_in_cell-unsound", vec_str(vs) + " cell " + std::to_string(c) + " -> " + std::to_string(r.idx()));
            } else if (exists) ctx.fail(OW, "find_halfface_in_cell-incomplete", vec_str(vs) + " cell " + std::to_string(c));
            // find_halfedge_in_cell
            HalfEdgeHandle he = m.find_halfedge_in_cell(VertexHandle(vs[0]), VertexHandle(vs[1]), CellHandle(c));
            bool eex = false;
            for (auto &kv : cnt) if (b.from(kv.first) == vs[0] && b.to(kv.first) == vs[1]) eex = true;
            if (he.is_valid()) { if (!cnt.count(he.idx()) || b.from(he.idx()) != vs[0] || b.to(he.idx()) != vs[1]) ctx.fail(OW, "find_halfedge_in_cell-unsound", vec_str(vs)); }
            else if (eex) ctx.fail(OW, "find_halfedge_in_cell-incomplete", vec_str(vs));
            ++n;
            st.add("probe_c10_in_cell_lookups");
        }
    }
    // ---- find_halfface(halfedge pair)
    for (int t = 0; t < 16 && b.ne > 0; ++t) {
        int h0, h1;
        if (t < 10 && !lf.empty()) { int f = lf[rng.below(lf.size())]; std::vector<int> hs = b.hf_hes(2 * f + (int)rng.below(2)); h0 = hs[rng.below(hs.size())]; h1 = hs[rng.below(hs.size())]; if (t & 1) h1 ^= 1; }
        else { h0 = (int)rng.below(2 * b.ne); h1 = (int)rng.below(2 * b.ne); }
        if (!b.elive[h0 / 2] || !b.elive[h1 / 2]) continue;
        HalfFaceHandle r = m.find_halfface(std::vector<HalfEdgeHandle>{HalfEdgeHandle(h0), HalfEdgeHandle(h1)});
        bool exists = false;
        for (int hf : b.hfs[h0]) { std::vector<int> hs = b.hf_hes(hf); if (std::find(hs.begin(), hs.end(), h1) != hs.end()) exists = true; }
        if (r.is_valid()) {
            std::vector<int> hs = r.idx() < 2 * b.nf ? b.hf_hes(r.idx()) : std::vector<int>();
            if (r.idx() >= 2 * b.nf || !b.flive[r.idx() / 2] || std::find(hs.begin(), hs.end(), h0) == hs.end() || std::find(hs.begin(), hs.end(), h1) == hs.end()) ctx.fail(OW, "find_halfface_hes-unsound", std::to_string(h0) + "," + std::to_string(h1));
        } else if (exists) ctx.fail(OW, "find_halfface_hes-incomplete", std::to_string(h0) + "," + std::to_string(h1));
        ++n;
    }
    // ---- get_halfface_vertices x3, is_incident, n_vertices_in_cell
    for (int f : lf) for (int s = 0; s < 2; ++s) {
        int hf = 2 * f + s;
        std::vector<int> c = vcycle(hf), got;
        for (auto v : m.get_halfface_vertices(HalfFaceHandle(hf))) got.push_back(v.idx());
        if (got != c) ctx.fail(OW, "get_halfface_vertices", "halfface " + std::to_string(hf) + " got " + vec_str(got) + " want " + vec_str(c));
        if (has_repeat(c)) continue;
        size_t k = rng.below(c.size());
        got.clear();
        for (auto v : m.get_halfface_vertices(HalfFaceHandle(hf), VertexHandle(c[k]))) got.push_back(v.idx());
        if (got != rotate_to(c, k)) ctx.fail(OW, "get_halfface_vertices-from-vertex", "halfface " + std::to_string(hf) + " start " + std::to_string(c[k]) + " got " + vec_str(got));
        std::vector<int> hs = b.hf_hes(hf);
        got.clear();
        for (auto v : m.get_halfface_vertices(HalfFaceHandle(hf), HalfEdgeHandle(hs[k]))) got.push_back(v.idx());
        if (got != rotate_to(c, k)) ctx.fail(OW, "get_halfface_vertices-from-halfedge", "halfface " + std::to_string(hf) + " got " + vec_str(got));
        ++n;
    }
    for (int t = 0; t < 24 && !lf.empty() && b.ne > 0; ++t) {
        int f = lf[rng.below(lf.size())], e = (t & 1) ? b.F[f][rng.below(b.F[f].size())] / 2 : (int)rng.below(b.ne);
        bool want = false; for (int h : b.F[f]) if (h / 2 == e) want = true;
        if (m.is_incident(FaceHandle(f), EdgeHandle(e)) != want) ctx.fail(OW, "is_incident", "face " + std::to_string(f) + " edge " + std::to_string(e));
    }
    for (int c : lc) { std::set<int> vs; for (int hf : b.C[c]) for (int h : b.F[hf / 2]) { vs.insert(b.from(h)); vs.insert(b.to(h)); } if (m.n_vertices_in_cell(CellHandle(c)) != vs.size()) ctx.fail(OW, "n_vertices_in_cell", "cell " + std::to_string(c)); }
    st.add("c10_lookups_checked", n);
    if (!lf.empty()) st.nt(digest);
    bool tomb = false; for (char c : b.flive) if (!c) tomb = true; for (char c : b.elive) if (!c) tomb = true;
    if (tomb) st.add("probe_c10_with_tombstones");
}

// ------------------------------------------------------------------ C09
template <class M> void battery_c09(const M &m, const Ctx &ctx, RunStats &st, uint64_t digest, bool order_applicable) {
    const std::vector<std::string> OW = {"C09", "C12"};
    if (!m.has_face_bottom_up_incidences()) return;
    Brute b = brute_of(m);
    long fans = 0, big = 0, rings = 0, skipped = 0, adj = 0;
    // ---- in-cell adjacency on closed cells
    for (int c = 0; c < b.nc; ++c) if (b.clive[c]) {
        std::map<int, int> owner; bool closed = true;
        for (int hf : b.C[c]) for (int h : b.hf_hes(hf)) { if (owner.count(h)) closed = false; owner[h] = hf; }
        for (auto &kv : owner) if (!owner.count(kv.first ^ 1)) closed = false;
        { std::vector<int> cc = b.C[c]; if (has_repeat(cc)) closed = false; }
        if (!closed) continue;
        bool selfadj = false;
        for (int hf : b.C[c]) if (std::find(b.C[c].begin(), b.C[c].end(), hf ^ 1) != b.C[c].end()) selfadj = true;
        for (int hf : b.C[c]) for (int h : b.hf_hes(hf)) {
            int want = owner[h ^ 1];
            if (want == hf) continue;   // both directions in one halfface: no "other" halfface
            HalfFaceHandle got = m.adjacent_halfface_in_cell(HalfFaceHandle(hf), HalfEdgeHandle(h));
            if (got.idx() != want) ctx.fail(OW, "adjacent", "cell " + std::to_string(c) + " halfface " + std::to_string(hf) + " halfedge " + std::to_string(h) + " -> " + std::to_string(got.idx()) + " expected " + std::to_string(want));
            if (!selfadj) {
                HalfFaceHandle g2 = m.adjacent_halfface_in_cell(HalfFaceHandle(hf), HalfEdgeHandle(h ^ 1));
                if (g2.idx() != want) ctx.fail(OW, "adjacent", "either orientation must be accepted: halfedge " + std::to_string(h ^ 1));
            }
            HalfFaceHandle back = m.adjacent_halfface_in_cell(got, HalfEdgeHandle(h ^ 1));
            if (back.idx() != hf) ctx.fail(OW, "involution", "cell " + std::to_string(c) + " halfface " + std::to_string(hf) + " halfedge " + std::to_string(h));
            ++adj;
        }
        if (selfadj) st.add("probe_c09_selfadjacent_cell");
    }
    // ---- rotational order around single-fan edges
    if (m.has_edge_bottom_up_incidences() && order_applicable) {
        for (int e = 0; e < b.ne; ++e) if (b.elive[e]) {
            // faces at e
            std::vector<int> fe; bool weird = false;
            for (int f = 0; f < b.nf; ++f) if (b.flive[f]) { int cnt = 0; for (int h : b.F[f]) if (h / 2 == e) ++cnt; if (cnt == 1) fe.push_back(f); else if (cnt > 1) weird = true; }
            if (weird || fe.size() < 2) { ++skipped; continue; }
            // per live cell: its halffaces at e
            std::map<int, std::vector<int>> cell_hfs;
            for (int f : fe) for (int s = 0; s < 2; ++s) if (b.cellcount[2 * f + s] > 0) cell_hfs[b.cellof[2 * f + s]].push_back(2 * f + s);
            std::map<int, std::vector<int>> nb;   // face graph
            bool single = true;
            for (auto &kv : cell_hfs) {
                // count over the cell's own list (a cell may list more halffaces at e than the cache says)
                std::vector<int> at;
                for (int hf : b.C[kv.first]) if (std::find(fe.begin(), fe.end(), hf / 2) != fe.end()) at.push_back(hf);
                if (at.size() != 2 || at[0] / 2 == at[1] / 2) { single = false; break; }
                nb[at[0] / 2].push_back(at[1] / 2); nb[at[1] / 2].push_back(at[0] / 2);
            }
            if (!single) { ++skipped; continue; }
            int deg1 = 0; bool bad = false;
            for (int f : fe) { size_t d = nb[f].size(); if (d > 2 || d == 0) bad = true; if (d == 1) ++deg1; }
            if (bad || !(deg1 == 0 || deg1 == 2)) { ++skipped; continue; }
            { std::set<int> seen; std::vector<int> stack = {fe[0]}; while (!stack.empty()) { int f = stack.back(); stack.pop_back(); if (!seen.insert(f).second) continue; for (int g : nb[f]) stack.push_back(g); } if (seen.size() != fe.size()) { ++skipped; continue; } }
            ++fans; if (fe.size() >= 3) ++big; if (deg1 == 0) ++rings;
            std::vector<int> lists[2];
            for (int s = 0; s < 2; ++s) {
                int h = 2 * e + s;
                std::vector<int> L = drain(m.hehf_iter(HalfEdgeHandle(h)));
                lists[s] = L;
                if (L.size() != fe.size()) ctx.fail(OW, "order", "edge " + std::to_string(e) + " list size");
                for (size_t i = 0; i < L.size(); ++i) {
                    int hf = L[i];
                    if (b.cellof[hf] < 0) { if (i + 1 != L.size()) ctx.fail(OW, "boundary-not-last", "edge " + std::to_string(e) + " halfedge " + std::to_string(h) + " list " + vec_str(L) + ": boundary halfface " + std::to_string(hf) + " at position " + std::to_string(i)); continue; }
                    int c = b.cellof[hf], partner = -1;
                    for (int g : b.C[c]) if (g != hf && std::find(fe.begin(), fe.end(), g / 2) != fe.end()) partner = g;
                    int want = partner ^ 1, got = L[(i + 1) % L.size()];
                    if (got != want) ctx.fail(OW, "order", "edge " + std::to_string(e) + " halfedge " + std::to_string(h) + " list " + vec_str(L) + ": after " + std::to_string(hf) + " expected " + std::to_string(want));
                }
            }
            std::vector<int> mir = rev_opp(lists[0]);
            if (mir != lists[1]) ctx.fail(OW, "mirror", "edge " + std::to_string(e) + " list(h) " + vec_str(lists[0]) + " list(opp h) " + vec_str(lists[1]));
        }
    }
    st.add("c09_fans_checked", fans); st.add("probe_c09_fan_valence_ge3", big); st.add("probe_c09_closed_ring_fan", rings); st.add("c09_edges_skipped", skipped); st.add("c09_adjacent_checked", adj);
    if (big > 0 || adj > 0) st.nt(digest);
}

}  // namespace sim
