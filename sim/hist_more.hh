// Forker, kernel-specific ops, registry invariants, post-op verification and the run loop.
#pragma once
#include "hist_ops.hh"

namespace sim {

// ---------------------------------------------------------------- tet / hex kernel entry points
template <class Mesh> void HistRun<Mesh>::op_add_cell_vertices(R &r, const std::vector<int> &vs, bool check) {
    if constexpr (KID == 0) { (void)r; (void)vs; (void)check; return; }
    else {
        Model &m = r.m;
        std::vector<std::string> ow = {KID == 1 ? "C15" : "C16", "C11"};
        int before = m.n(BC);
        std::vector<VertexHandle> vv;
        std::vector<std::vector<int>> cycles;   // halfface vertex cycles the kernel documents for this vertex list
        if constexpr (KID == 1) {
            for (int v : vs) vv.push_back(r.vh(v));
            cycles = {{vs[0], vs[1], vs[2]}, {vs[0], vs[2], vs[3]}, {vs[0], vs[3], vs[1]}, {vs[1], vs[3], vs[2]}};
        } else {
            // template numbering (bottom 0..3, top 4..7 above) -> kernel's documented numbering
            //      5-------6         kernel: 0,1,2,3 = front face ccw from outside-front, 4 behind 0, 7 behind 1, 6 behind 2, 5 behind 3
            std::vector<int> k = {vs[0], vs[1], vs[2], vs[3], vs[4], vs[7], vs[6], vs[5]};
            for (int v : k) vv.push_back(r.vh(v));
            cycles = {{k[3], k[2], k[1], k[0]}, {k[7], k[6], k[5], k[4]}, {k[1], k[2], k[6], k[7]}, {k[4], k[5], k[3], k[0]}, {k[1], k[7], k[4], k[0]}, {k[2], k[3], k[5], k[6]}};
        }
        for (auto &cyc : cycles) for (size_t i = 0; i < cyc.size(); ++i) {
            int cnt = 0;
            for (int e = 0; e < m.n_uids(BE); ++e) if (m.alive[BE][e]) { int a = cyc[i], b = cyc[(i + 1) % cyc.size()]; if ((m.E[e].from == a && m.E[e].to == b) || (m.E[e].from == b && m.E[e].to == a)) ++cnt; }
            if (cnt > 1) return;   // duplicate edges: which one the kernel's lookup follows is not specified
        }
        // expected acceptance (with check): every needed halfface is free
        bool all_free = true;
        for (auto &cyc : cycles) {
            bool found_used = false, found_free = false;
            for (int f = 0; f < m.n_uids(BF); ++f) if (m.alive[BF][f] && m.F[f].size() == cyc.size())
                for (int side = 0; side < 2; ++side) if (cyc_equal(m.hf_vertices(2 * f + side), cyc)) { if (r.hf_used(2 * f + side)) found_used = true; else found_free = true; }
            if (found_used && !found_free) all_free = false;
            if (found_used && found_free) return;   // ambiguous duplicates: which one the lookup returns is not specified
        }
        if (!all_free && !check) return;            // would put a halfface into two cells: outside the valid-argument space
        bool check_variant_4args = KID == 1 && ((vs[0] + vs[1] + vs[2] + vs[3]) & 1);
        if (check_variant_4args && !all_free) check_variant_4args = false;   // (the four-handle form checks through add_cell(halffaces, check): same outcome, but keep the rejected case on the documented path)
        CellHandle c;
        if constexpr (KID == 1) {
            // the tet kernel has two vertex entry points: the vector form (find_halfface + add_face) and the four-handle form (add_halfedge / add_halfface)
            if (check_variant_4args) { c = r.mesh->add_cell(vv[0], vv[1], vv[2], vv[3], check); st.add("probe_tet_add_cell_4_handles"); }
            else c = r.mesh->add_cell(vv, check);
        } else c = r.mesh->add_cell(vv, check);
        adopt(r);
        if (!all_free) {
            if (c.is_valid() || m.n(BC) != before) ctx.fail(ow, "add_cell-accepted-invalid", "a needed halfface already has a cell");
            st.add("probe_kernel_add_cell_rejected");
            return;
        }
        if (!c.is_valid() || c.idx() != before || m.n(BC) != before + 1) ctx.fail(ow, "add_cell-rejected-valid", "vertices " + vec_str(vs));
        int u = m.slots[BC][before];
        if (m.C[u].size() != cycles.size()) ctx.fail(ow, "add_cell-definition", "valence");
        for (size_t i = 0; i < cycles.size(); ++i)
            if (!cyc_equal(m.hf_vertices(m.C[u][i]), cycles[i])) ctx.fail(ow, "add_cell-definition", "halfface " + std::to_string(i) + " has vertices " + vec_str(m.hf_vertices(m.C[u][i])) + " expected cycle " + vec_str(cycles[i]));
        st.add("probe_kernel_add_cell_vertices");
    }
}

// ---------------------------------------------------------------- forker
template <class Mesh> void HistRun<Mesh>::op_fork(const Op &q) {
    const std::string &k = q.kind;
    if (k == "USE") { cur = (unsigned)q.a[0] % reps.size(); return; }
    auto detach_handles_of = [&](int ri) {
        for (int i = 0; i < NHELD; ++i) if (held[i].h && held[i].rep == ri) {
            // a handle that outlives its mesh keeps its data: remember what it must still hold
            R &r = *reps[ri];
            MProp &mp = r.props[held[i].mid];
            held[i].frozen.clear();
            int ns = r.nslots(mp.kind);
            for (int s = 0; s < ns; ++s) { int key = r.key_of_slot(mp.kind, s); held[i].frozen.push_back(key < 0 || mp.unspecified ? INT_MIN : mp.get(key)); }
            held[i].rep = -2;
        }
    };
    if (k == "DESTROY") {
        if (reps.size() < 2) return;
        int v = (unsigned)q.a[0] % reps.size();
        detach_handles_of(v);
        reps.erase(reps.begin() + v);
        for (int i = 0; i < NHELD; ++i) if (held[i].rep > v) held[i].rep--;
        if (cur >= (int)reps.size()) cur = 0;
        else if (cur > v) cur--;
        st.add("probe_mesh_destroyed_with_handles");
        return;
    }
    int si = (unsigned)q.a[0] % reps.size();
    R &src = *reps[si];
    auto clone_model_into = [&](R &dst) {
        dst.m = src.m;
        dst.vpos = src.vpos;
        dst.lat_v = src.lat_v; dst.lat_c = src.lat_c; dst.io = src.io;
        dst.pos_persistent = src.pos_persistent;
        // only persistent properties travel
        for (auto &mp : src.props) if (mp.attached && mp.persistent) {
            MProp c = mp;
            c.id = (int)dst.props.size();
            dst.props.push_back(c);
        }
        dst.write_tags();
    };
    if (k == "FORK_COPY") {
        if (reps.size() >= 3) return;
        std::unique_ptr<R> n(new R(new Mesh(*src.mesh)));
        clone_model_into(*n);
        reps.push_back(std::move(n));
        st.add("probe_fork_copy");
        if (src.m.needs_gc()) st.add("probe_fork_with_pending_deletions");
        return;
    }
    if (k == "FORK_CROSS") {
        // assignment between polyhedral, tetrahedral and hexahedral mesh types: there and back again through the other kernel
        if (reps.size() >= 3) return;
        auto content_type = [&]() { const Model &m = src.m; if (m.n_logical(BC) == 0) return 0; bool tet = true, hex = true;
            for (int u : m.live_uids(BF)) { if (m.F[u].size() != 3) tet = false; if (m.F[u].size() != 4) hex = false; }
            for (int u : m.live_uids(BC)) { if (m.C[u].size() != 4) tet = false; if (m.C[u].size() != 6) hex = false; }
            return tet ? 1 : hex ? 2 : 0; };
        std::unique_ptr<Mesh> back(new Mesh());
        auto via = [&](auto &tmp, const char *what) {
            tmp = *src.mesh;
            if (!src.m.needs_gc()) { std::string d = compare_loaded(tmp, src, false, false); if (!d.empty()) ctx.fail({"C13"}, "cross-kernel-copy-differs", std::string(what) + ": " + d); }
            *back = tmp;
        };
        if (KID == 0) { int t = content_type(); if (t == 1 && (q.a[2] & 1)) { TetMesh tmp; via(tmp, "poly->tet->poly"); } else if (t == 2 && (q.a[2] & 1)) { HexMesh tmp; via(tmp, "poly->hex->poly"); } else { PolyMesh tmp; via(tmp, "poly->poly->poly"); } }
        else { PolyMesh tmp; via(tmp, KID == 1 ? "tet->poly->tet" : "hex->poly->hex"); }
        std::unique_ptr<R> n(new R(back.release()));
        clone_model_into(*n);
        reps.push_back(std::move(n));
        st.add("probe_fork_cross_kernel");
        return;
    }
    if (k == "FORK_ASSIGN_BARE") {
        // assignment from a mesh that carries no property of any kind except its positions (every replica of the harness carries the uid
        // tags, so this is the only source whose per-kind registries are empty): handles held into the target must still be resized
        int di = (unsigned)q.a[1] % reps.size();
        R &dst = *reps[di];
        Mesh bare;
        int nv = (q.a[2] % 3) == 0 ? 0 : 1 + q.a[3] % 6;
        for (int i = 0; i < nv; ++i) bare.add_vertex(Vec3d(0, 0, 0));
        if ((q.a[2] % 3) == 2) for (int i = 0; i + 1 < nv; ++i) bare.add_edge(VertexHandle(i), VertexHandle(i + 1));
        Snap sb = take_snap(bare);
        *dst.mesh = bare;
        Snap sd = take_snap(*dst.mesh);
        if (snap_digest(sb) != snap_digest(sd)) ctx.fail({"C13"}, "assign-differs", "target differs from a property-less source after assignment");
        for (auto &mp : dst.props) if (mp.attached) { mp.shared = false; mp.persistent = false; mp.unspecified = true; mp.val.clear(); }
        Model nm;
        nm.deferred = sd.deferred; nm.fast = sd.fast;
        for (int i = 0; i < 3; ++i) nm.bu[i] = sd.bu[i];
        for (int i = 0; i < sd.n[BV]; ++i) nm.add_vertex();
        for (int i = 0; i < sd.n[BE]; ++i) nm.add_edge(sd.E[i].first, sd.E[i].second);
        dst.m = nm;
        dst.vpos.assign((size_t)sd.n[BV], INT_MIN);
        dst.lat_v.clear(); dst.lat_c.clear(); dst.io.clear();
        dst.pos_persistent = false;
        dst.write_tags();   // (the tags are privately held handles of the target: they must have followed the new entity counts)
        st.add("probe_fork_assign_from_bare_mesh");
        for (int i = 0; i < NHELD; ++i) if (held[i].h && held[i].rep == di) { st.add("probe_assign_with_live_handles"); break; }
        return;
    }
    if (k == "FORK_SELF") { Mesh &m = *src.mesh; Mesh &alias = m; m = alias; st.add("probe_self_assign"); return; }
    if (k == "FORK_ASSIGN") {
        if (reps.size() < 2) return;
        int di = (unsigned)q.a[1] % reps.size();
        if (di == si) di = (di + 1) % reps.size();
        R &dst = *reps[di];
        *dst.mesh = *src.mesh;
        // handles the clients held into the assigned-to mesh: still usable, resized, no longer findable, values unspecified
        for (auto &mp : dst.props) if (mp.attached) { mp.shared = false; mp.persistent = false; mp.unspecified = true; mp.val.clear(); }
        clone_model_into(dst);
        st.add("probe_fork_assign");
        for (int i = 0; i < NHELD; ++i) if (held[i].h && held[i].rep == di) { st.add("probe_assign_with_live_handles"); break; }
        return;
    }
}

// ---------------------------------------------------------------- resync: rebuild the model from the SUT after an op whose
// entity-level renumbering the properties do not specify (tet edge collapse). Values are re-read, tags rewritten.
template <class Mesh> void HistRun<Mesh>::resync(R &r, int ri) {
    Snap s = take_snap(*r.mesh);
    Model nm;
    nm.deferred = s.deferred; nm.fast = s.fast;
    for (int i = 0; i < 3; ++i) nm.bu[i] = s.bu[i];
    std::vector<int> npos;
    for (int i = 0; i < s.n[BV]; ++i) {
        int u = nm.add_vertex(); nm.alive[BV][u] = !s.del[BV][i];
        Vec3d p = r.mesh->vertex(VertexHandle(i));
        npos.push_back(p == Vec3d(0, 0, 0) ? INT_MIN : Render<Vec3d>::back(p));
    }
    for (int i = 0; i < s.n[BE]; ++i) { int u = nm.add_edge(s.E[i].first, s.E[i].second); nm.alive[BE][u] = !s.del[BE][i]; }
    for (int i = 0; i < s.n[BF]; ++i) { int u = nm.add_face(s.F[i]); nm.alive[BF][u] = !s.del[BF][i]; }
    for (int i = 0; i < s.n[BC]; ++i) { int u = nm.add_cell(s.C[i]); nm.alive[BC][u] = !s.del[BC][i]; }
    r.m = nm;
    r.vpos = npos;
    r.write_tags();
    // property values: re-read through a held handle, or through the persistent listing
    std::set<int> done;
    auto reread = [&](MProp &mp, PropHolderBase &h) {
        mp.val.clear();
        int ns = r.nslots(mp.kind);
        if ((int)h.size() != ns) return;   // size is verified by verify_props
        for (int sl = 0; sl < ns; ++sl) { int key = r.key_of_slot(mp.kind, sl); if (key >= 0) mp.val[key] = h.decode(sl); }
    };
    for (int i = 0; i < NHELD; ++i) if (held[i].h && held[i].rep == ri && !done.count(held[i].mid)) { done.insert(held[i].mid); MProp &mp = r.props[held[i].mid]; if (mp.attached) reread(mp, *held[i].h); }
    for (auto &pi : list_persistent(*r.mesh)) {
        for (auto &mp : r.props) if (mp.attached && mp.persistent && !done.count(mp.id) && mp.kind == pi.kind && mp.name == pi.name) {
            auto h = holder_from_storage(pi.st);
            if (h && h->type == mp.type) { reread(mp, *h); done.insert(mp.id); }
        }
    }
}

// ---------------------------------------------------------------- tet edge collapse (C15)
template <class Mesh> void HistRun<Mesh>::op_collapse(R &r, const Op &q) {
    if constexpr (KID != 1) { (void)r; (void)q; return; }
    else {
        Model &m = r.m;
        if (any_bu_off(r)) return;
        // simplicial closure of everything alive
        std::set<std::vector<int>> K;
        auto addsimplex = [&](std::vector<int> v) {
            std::sort(v.begin(), v.end()); v.erase(std::unique(v.begin(), v.end()), v.end());
            int n = (int)v.size();
            for (int mask = 1; mask < (1 << n); ++mask) { std::vector<int> sub; for (int i = 0; i < n; ++i) if (mask & (1 << i)) sub.push_back(v[i]); K.insert(sub); }
        };
        for (int v : m.live_uids(BV)) addsimplex({v});
        for (int e : m.live_uids(BE)) addsimplex({m.E[e].from, m.E[e].to});
        for (int f : m.live_uids(BF)) addsimplex(m.hf_vertices(2 * f));
        std::vector<std::vector<int>> cells;   // oriented: first halfface cycle + apex
        for (int c : m.live_uids(BC)) {
            std::set<int> vs; for (int hf : m.C[c]) for (int v : m.hf_vertices(hf)) vs.insert(v);
            if (vs.size() != 4) return;
            std::vector<int> cyc = m.hf_vertices(m.C[c][0]);
            for (int v : vs) if (std::find(cyc.begin(), cyc.end(), v) == cyc.end()) cyc.push_back(v);
            cells.push_back(cyc);
            addsimplex(cyc);
        }
        auto link = [&](const std::vector<int> &sig) {
            std::set<std::vector<int>> L;
            for (auto &tau : K) {
                bool disjoint = true; for (int x : tau) if (std::find(sig.begin(), sig.end(), x) != sig.end()) disjoint = false;
                if (!disjoint) continue;
                std::vector<int> un = tau; un.insert(un.end(), sig.begin(), sig.end()); std::sort(un.begin(), un.end());
                if (K.count(un)) L.insert(tau);
            }
            return L;
        };
        // candidate halfedges satisfying the link condition, no duplicate edges/faces around, and no degenerate result
        std::vector<int> cand;
        for (int e : m.live_uids(BE)) for (int s = 0; s < 2; ++s) {
            int a = m.he_from(2 * e + s), b = m.he_to(2 * e + s);
            if (a == b) continue;
            auto La = link({a}), Lb = link({b}), Lab = link({std::min(a, b), std::max(a, b)});
            std::set<std::vector<int>> inter; for (auto &x : La) if (Lb.count(x)) inter.insert(x);
            if (inter != Lab) continue;
            cand.push_back(2 * e + s);
        }
        // duplicate edges / faces make "the" edge between two vertices ambiguous for the kernel's lookups
        for (int e1 : m.live_uids(BE)) for (int e2 : m.live_uids(BE)) if (e1 < e2) { auto &x = m.E[e1], &y = m.E[e2]; if ((x.from == y.from && x.to == y.to) || (x.from == y.to && x.to == y.from)) return; }
        { std::set<std::vector<int>> seen; for (int f : m.live_uids(BF)) { auto v = m.hf_vertices(2 * f); std::sort(v.begin(), v.end()); if (!seen.insert(v).second) return; } }
        if (cand.empty()) return;
        int href = pick(cand, q.a[0]);
        int a = m.he_from(href), b = m.he_to(href);
        // expected cells
        std::vector<std::vector<int>> want;
        for (auto &c : cells) {
            bool ha = std::find(c.begin(), c.end(), a) != c.end(), hb = std::find(c.begin(), c.end(), b) != c.end();
            if (ha && hb) continue;
            std::vector<int> t = c; for (int &x : t) if (x == a) x = b;
            want.push_back(canon_even(t));
        }
        { auto w2 = want; std::sort(w2.begin(), w2.end()); if (std::adjacent_find(w2.begin(), w2.end()) != w2.end()) return; }   // would create a duplicate cell
        // untouched cells keep their property values: remember tag->value through the uid tags of cells without a
        std::vector<std::string> ow = {"C15"};
        VertexHandle ret = r.mesh->collapse_edge(r.heh(href));
        st.add("probe_collapse_executed");
        st.add(m.deferred ? "probe_collapse_deferred" : (m.fast ? "probe_collapse_fast" : "probe_collapse_shift"));
        // the returned handle designates b
        if (!ret.is_valid() || ret.idx() >= (int)r.mesh->n_vertices() || r.mesh->is_deleted(ret) || r.tv[ret] != b)
            ctx.fail(ow, "collapse-returned-handle", "collapse_edge(" + std::to_string(a) + "->" + std::to_string(b) + ") returned " + std::to_string(ret.idx()) + " which carries uid tag " + (ret.is_valid() && ret.idx() < (int)r.mesh->n_vertices() ? std::to_string(r.tv[ret]) : std::string("?")));
        // resulting live cells as oriented tuples of vertex uids (via the vertex tags, which follow ordinary deletion)
        std::vector<std::vector<int>> got;
        Mesh &M = *r.mesh;
        for (auto ch : M.cells()) {
            std::vector<int> t;
            std::set<int> vs;
            const auto &hfs = M.cell(ch).halffaces();
            if (hfs.size() != 4) ctx.fail(ow, "shape", "cell with " + std::to_string(hfs.size()) + " faces after collapse");
            for (auto vh : M.halfface_vertices(hfs[0])) t.push_back(r.tv[vh]);
            for (auto hf : hfs) for (auto vh : M.halfface_vertices(hf)) vs.insert(r.tv[vh]);
            for (int v : vs) if (std::find(t.begin(), t.end(), v) == t.end()) t.push_back(v);
            if (t.size() != 4) ctx.fail(ow, "shape", "cell without four distinct vertices after collapse");
            got.push_back(canon_even(t));
        }
        // surviving cells keep their property values: the uid tag (an ordinary cell property) of each resulting cell must name
        // the former cell it stands for, and every client-held cell / vertex property must still hold that entity's value
        {
            std::vector<std::string> owp = {"C15", "C03"};
            std::map<int, std::vector<int>> old_tuple;   // old cell uid -> substituted canonical tuple
            { size_t k = 0; for (int c : m.live_uids(BC)) { std::vector<int> t = cells[k++]; bool ha = std::find(t.begin(), t.end(), a) != t.end(), hb = std::find(t.begin(), t.end(), b) != t.end(); if (ha && hb) continue; for (int &x : t) if (x == a) x = b; old_tuple[c] = canon_even(t); } }
            size_t gi = 0;
            for (auto ch : M.cells()) {
                int old = r.tc[ch];
                auto it = old_tuple.find(old);
                if (it == old_tuple.end() || it->second != got[gi]) ctx.fail(owp, "collapse-cell-property", "cell " + std::to_string(ch.idx()) + " carries uid tag " + std::to_string(old) + " which is not the former cell it replaces");
                for (int i = 0; i < NHELD; ++i) if (held[i].h && held[i].rep == cur) { const MProp &mp = r.props[held[i].mid]; if (mp.attached && mp.kind == KC && !held[i].h->equals((size_t)ch.idx(), mp.get(old))) ctx.fail(owp, "collapse-cell-property", "client cell property lost the value of the surviving cell"); }
                ++gi;
            }
            for (auto vh : M.vertices()) {
                int u = r.tv[vh];
                for (int i = 0; i < NHELD; ++i) if (held[i].h && held[i].rep == cur) { const MProp &mp = r.props[held[i].mid]; if (mp.attached && mp.kind == KV && u >= 0 && u < m.n_uids(BV) && !held[i].h->equals((size_t)vh.idx(), mp.get(u))) ctx.fail(owp, "collapse-vertex-property", "client vertex property lost the value of a surviving vertex"); }
            }
            st.add("probe_collapse_property_transfer_checked");
        }
        std::sort(got.begin(), got.end()); std::sort(want.begin(), want.end());
        if (got != want) {
            std::string d = "collapse " + std::to_string(a) + "->" + std::to_string(b) + ": got " + std::to_string(got.size()) + " cells, expected " + std::to_string(want.size());
            for (auto &t : want) if (!std::binary_search(got.begin(), got.end(), t)) { d += " missing/misoriented " + vec_str(t); break; }
            ctx.fail(ow, "collapse-cells", d);
        }
        if (M.is_deleted(r.vh(b)) ) ctx.fail(ow, "collapse-cells", "b was deleted");
        // a's slot must be gone / deleted, b alive; everything else is re-read
        resync(r, cur);
        resynced = true;
    }
}


// ---------------------------------------------------------------- registry invariants (C14)
template <class Mesh> void HistRun<Mesh>::verify_registry(R &r, int ri, bool deep) {
    std::vector<std::string> OW = {"C14"};
    if (ctx.in({"C13"})) OW.push_back("C13");
    auto model_alive = [&](const MProp &mp) {
        if (!mp.attached) return false;
        if (mp.persistent) return true;
        for (int i = 0; i < NHELD; ++i) if (held[i].h && held[i].rep == ri && held[i].mid == mp.id) return true;
        return false;
    };
    // flags as seen through every held handle
    for (int i = 0; i < NHELD; ++i) {
        Held &h = held[i];
        if (!h.h || h.rep != ri) continue;
        const MProp &mp = r.props[h.mid];
        if (!h.h->attached()) ctx.fail(OW, "lifetime", "handle to a live mesh reports detached");
        if (h.h->shared() != mp.shared || h.h->persistent() != mp.persistent)
            ctx.fail(OW, "flags", "prop#" + std::to_string(mp.id) + " shared=" + std::to_string(h.h->shared()) + "/" + std::to_string(mp.shared) + " persistent=" + std::to_string(h.h->persistent()) + "/" + std::to_string(mp.persistent));
        if (h.h->name() != mp.name) ctx.fail(OW, "flags", "name '" + h.h->name() + "' expected '" + mp.name + "'");
        if (mp.persistent && !mp.shared) ctx.fail(OW, "unique", "model: persistent but not shared");
    }
    // counts
    int alive_k[7] = {0, 0, 0, 0, 0, 0, 0}, pers_k[7] = {0, 0, 0, 0, 0, 0, 0};
    for (auto &mp : r.props) if (model_alive(mp)) { alive_k[mp.kind]++; if (mp.persistent) pers_k[mp.kind]++; }
    static const int tags_k[7] = {1, 1, 1, 1, 1, 1, 0};
    for (int k = 0; k < 7; ++k) {
        long want = alive_k[k] + tags_k[k] + (k == KV ? 1 : 0);   // + uid tag + position property
        if ((long)n_props_of(*r.mesh, k) != want) ctx.fail(OW, "counts", std::string("n_props<") + pkind_name(k) + "> = " + std::to_string(n_props_of(*r.mesh, k)) + " expected " + std::to_string(want));
        if ((long)n_persistent_props_of(*r.mesh, k) != pers_k[k] + (k == KV && r.pos_persistent ? 1 : 0)) ctx.fail(OW, "counts", std::string("n_persistent_props<") + pkind_name(k) + "> = " + std::to_string(n_persistent_props_of(*r.mesh, k)) + " expected " + std::to_string(pers_k[k]));
    }
    // persistent listing: shared, named, unique
    auto pl = list_persistent(*r.mesh);
    std::set<std::string> seen;
    for (auto &pi : pl) {
        if (!pi.st->shared() || pi.st->name().empty()) ctx.fail(OW, "unique", "persistent property that is not shared-and-named");
        std::string key = std::to_string(pi.kind) + "/" + pi.name + "/" + pi.type_name;
        if (seen.count(key)) ctx.fail(OW, "unique", "two persistent properties " + key);
        seen.insert(key);
    }
    if (!deep) return;
    // lookups over the whole name pool
    for (int kind = 0; kind < 7; ++kind) for (int type = 0; type < NTYPES; ++type) for (int nm = 0; nm < 5; ++nm) {
        std::string name = NAME_POOL[nm];
        int cnt = 0;
        if (!name.empty()) for (auto &mp : r.props) if (model_alive(mp) && mp.shared && mp.kind == kind && mp.type == type && mp.name == name) ++cnt;
        bool ex = false;
        reg_call(*r.mesh, R_EXISTS, kind, type, name, 0, &ex);
        if (ex != (cnt > 0)) ctx.fail(OW, "lookup", std::string("property_exists<") + ptype_name(type) + "," + pkind_name(kind) + ">('" + name + "') = " + std::to_string(ex) + " model " + std::to_string(cnt));
        if (cnt > 1) ctx.fail(OW, "unique", "two live shared properties named '" + name + "'");
    }
    st.add("c14_registry_checked");
}

// ---------------------------------------------------------------- after every op
template <class Mesh> void HistRun<Mesh>::post_op(const Op &q, int idx) {
    (void)q;
    // the property's own batteries first (they need nothing but the SUT), then the model comparison: a defect that
    // also trips a foreign baseline oracle must not hide from the check whose property it breaks
    {
        R &r = *reps[cur];
        Snap s = take_snap(*r.mesh);
        run_batteries(r, s, snap_digest(s), idx);
    }
    for (size_t i = 0; i < reps.size(); ++i) {
        R &r = *reps[i];
        std::vector<std::string> save_s = ow_struct, save_p = ow_props;
        if ((int)i != cur) { ow_struct = {"C13"}; ow_props = {"C13"}; }   // the untouched replica must not change
        Snap s = take_snap(*r.mesh);
        verify_structure(r, s);
        verify_props(r);
        if (ctx.in({"C14", "C13"})) verify_registry(r, (int)i, ctx.is("C14"));
        uint64_t d = snap_digest(s);
        loghash = fnv1a(&d, sizeof d, loghash);
        ow_struct = save_s; ow_props = save_p;
        if ((int)i == cur) note_nontrivial(r, d);
    }
    // handles that outlived their mesh: detached, data intact
    for (int i = 0; i < NHELD; ++i) if (held[i].h && held[i].rep == -2) {
        std::vector<std::string> OW = {"C14"};
        if (held[i].h->attached()) ctx.fail(OW, "detached", "handle still reports being attached after its mesh was destroyed");
        if (held[i].h->size() != held[i].frozen.size()) ctx.fail(OW, "detached", "size changed after mesh destruction");
        for (size_t s = 0; s < held[i].frozen.size(); ++s) if (held[i].frozen[s] != INT_MIN && !held[i].h->equals(s, held[i].frozen[s])) ctx.fail(OW, "detached", "value changed after mesh destruction");
        st.add("probe_detached_handle_checked");
    }
}

template <class Mesh> void HistRun<Mesh>::note_nontrivial(R &r, uint64_t d) {
    if (ctx.in({"C02", "C03", "C04", "C11", "C13", "C14", "C17"})) {
        // model-based properties: a state counts as non-trivial when something of the property's subject is present
        bool nt = false;
        if (ctx.is("C02")) nt = last_kind.rfind("DEL_", 0) == 0 || last_kind == "CLEAR" || last_kind == "MODE";
        if (ctx.is("C03")) { for (int i = 0; i < NHELD; ++i) if (held[i].h && held[i].rep == cur) nt = true; nt = nt && r.m.n(BE) > 0; }
        if (ctx.is("C04")) nt = last_kind == "GC" || (last_kind == "MODE");
        if (ctx.is("C11")) nt = last_kind.rfind("ADD_", 0) == 0 || last_kind.rfind("BAD_", 0) == 0;
        if (ctx.is("C13")) nt = reps.size() > 1;
        if (ctx.is("C14")) nt = last_kind.rfind("P_", 0) == 0 || last_kind == "DESTROY";
        if (ctx.is("C17")) nt = last_kind.rfind("SWAP_", 0) == 0 && swap_a != swap_b;
        if (nt) st.nt(d ^ fnv1a(last_kind));
    }
}
template <class Mesh> void HistRun<Mesh>::run_batteries(R &r, const Snap &s, uint64_t d, int idx) {
    (void)s;
    const Mesh &M = *r.mesh;
    int every = (int)plan.c("battery_every", 1);
    bool due = every <= 1 || idx % every == 0 || idx + 1 == (int)plan.ops.size();
    if (!due) return;
    if (ctx.is("C12")) battery_c12_disabled(M, ctx, st);
    if (ctx.in({"C01", "C12"})) battery_c01(M, ctx, st, d);
    if (ctx.is("C05")) battery_c05(M, ctx, st, d);
    if (ctx.is("C08")) battery_c08(M, ctx, st, d);
    if (ctx.in({"C09", "C12"})) battery_c09(M, ctx, st, d, no_set_ops);
    if (ctx.is("C10")) battery_c10(M, ctx, st, d);
    if constexpr (KID == 1) { if (ctx.is("C15")) battery_c15(M, ctx, st, d); }
    if constexpr (KID == 2) { if (ctx.is("C16")) battery_c16(M, ctx, st, d); }
}

template <class Mesh> RunResult HistRun<Mesh>::run() {
    RunResult res;
    reps.emplace_back(new R());
    R &r0 = *reps[0];
    salt = (int)plan.c("salt", 0);
    exact_only = ctx.is("C17");
    {
        bool d = plan.c("deferred0", 1), f = plan.c("fast0", 1);
        int bu = (int)plan.c("bu0", 7);
        r0.mesh->enable_deferred_deletion(d); r0.m.deferred = d;
        r0.mesh->enable_fast_deletion(f); r0.m.fast = f;
        r0.mesh->enable_vertex_bottom_up_incidences(bu & 1); r0.m.bu[0] = bu & 1;
        r0.mesh->enable_edge_bottom_up_incidences(bu & 2); r0.m.bu[1] = bu & 2;
        r0.mesh->enable_face_bottom_up_incidences(bu & 4); r0.m.bu[2] = bu & 4;
    }
    int i = 0;
    try {
        for (; i < (int)plan.ops.size(); ++i) {
            const Op &q = plan.ops[i];
            last_kind = q.kind;
            uint64_t oh = fnv1a(q.kind);
            loghash = fnv1a(&oh, sizeof oh, loghash);
            exec_op(q);
            post_op(q, i);
            st.add("ops_executed");
            // cost bound: once a replica holds a 65535-class mesh, every further op costs seconds under ASan - allow eight more, then end the run
            { bool huge = false; for (auto &rp : reps) if (rp->m.n(BV) > 20000) huge = true; if (huge && ++ops_on_huge > 8) { st.add("probe_run_ended_by_huge_mesh_op_cap"); ++i; break; } }
            st.add("op_" + q.kind);
            tri.push_back(q.kind);
        }
    } catch (const Violation &v) {
        res.violation = true; res.cls = v.cls; res.detail = v.detail; res.at_op = i;
    } catch (const Inconclusive &ic) {
        res.inconclusive = true; res.detail = ic.why; res.at_op = i;
    } catch (const std::exception &e) {
        res.violation = true; res.cls = ctx.P + "/unexpected-exception"; res.detail = e.what(); res.at_op = i;
    }
    uint64_t ch = fnv1a(res.cls);
    loghash = fnv1a(&ch, sizeof ch, loghash);
    res.loghash = loghash;
    // interleaving measure: distinct client-kind trigrams
    for (size_t j = 0; j + 2 < tri.size(); ++j) st.nt_tri(fnv1a(tri[j] + ">" + tri[j + 1] + ">" + tri[j + 2]));
    // destroy handles before meshes and meshes before handles in a seed-chosen order (lifetime safety under ASan)
    if (keep_alive) return res;   // FROZEN world: the readers run on what the history built
    if (plan.seed & 1) { for (int h = 0; h < NHELD; ++h) held[h].h.reset(); reps.clear(); }
    else { reps.clear(); for (int h = 0; h < NHELD; ++h) held[h].h.reset(); }
    return res;
}

}  // namespace sim
