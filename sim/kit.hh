// ovmsim kit: seeded PRNG streams, plans (explicit op lists), replay files, digests, tiny JSON writer.
#pragma once
#include <cstdint>
#include <cstdio>
#include <cstdlib>
#include <cstring>
#include <map>
#include <set>
#include <sstream>
#include <string>
#include <vector>
#include <functional>
#include <algorithm>

namespace sim {

// ---------------------------------------------------------------- rng
inline uint64_t splitmix64(uint64_t &x) {
    uint64_t z = (x += 0x9e3779b97f4a7c15ULL);
    z = (z ^ (z >> 30)) * 0xbf58476d1ce4e5b9ULL;
    z = (z ^ (z >> 27)) * 0x94d049bb133111ebULL;
    return z ^ (z >> 31);
}
inline uint64_t fnv1a(const void *p, size_t n, uint64_t h = 0xcbf29ce484222325ULL) {
    const unsigned char *c = static_cast<const unsigned char *>(p);
    for (size_t i = 0; i < n; ++i) { h ^= c[i]; h *= 0x100000001b3ULL; }
    return h;
}
inline uint64_t fnv1a(const std::string &s, uint64_t h = 0xcbf29ce484222325ULL) { return fnv1a(s.data(), s.size(), h); }

struct Rng {
    uint64_t s[4];
    explicit Rng(uint64_t seed = 1) { reseed(seed); }
    void reseed(uint64_t seed) { uint64_t x = seed; for (auto &v : s) v = splitmix64(x); }
    static uint64_t rotl(uint64_t x, int k) { return (x << k) | (x >> (64 - k)); }
    uint64_t next() {
        const uint64_t r = rotl(s[1] * 5, 7) * 9, t = s[1] << 17;
        s[2] ^= s[0]; s[3] ^= s[1]; s[1] ^= s[2]; s[0] ^= s[3]; s[2] ^= t; s[3] = rotl(s[3], 45);
        return r;
    }
    // independent sub-stream for a named concern: adding a draw in one concern does not shift the others
    Rng fork(const char *concern) const { return Rng(s[0] ^ rotl(s[1], 13) ^ fnv1a(concern, strlen(concern))); }
    uint64_t below(uint64_t n) { return n ? next() % n : 0; }
    int range(int lo, int hi) { return lo + (int)below((uint64_t)(hi - lo + 1)); }  // inclusive
    bool chance(double p) { return (next() >> 11) * (1.0 / 9007199254740992.0) < p; }
    int arg() { return (int)(next() & 0x3fffffff); }
    int weighted(const std::vector<int> &w) {
        long tot = 0; for (int x : w) tot += x;
        if (tot <= 0) return 0;
        long r = (long)below((uint64_t)tot);
        for (size_t i = 0; i < w.size(); ++i) { if (r < w[i]) return (int)i; r -= w[i]; }
        return (int)w.size() - 1;
    }
};
inline uint64_t run_seed(uint64_t master, const std::string &prop, uint64_t i) {
    uint64_t x = master ^ fnv1a(prop) ^ (i * 0x9e3779b97f4a7c15ULL);
    return splitmix64(x);
}

// ---------------------------------------------------------------- plan
struct Op {
    std::string kind;
    int a[4] = {0, 0, 0, 0};
    std::string s;  // optional payload (fault spec, hex bytes ...), no blanks
};
struct Plan {
    std::string prop, world, kernel;
    uint64_t seed = 0;
    std::map<std::string, long> cfg;
    std::vector<Op> ops;
    std::string expect_class;
    long c(const std::string &k, long d = 0) const { auto it = cfg.find(k); return it == cfg.end() ? d : it->second; }
};
inline std::string plan_to_text(const Plan &p) {
    std::ostringstream o;
    o << "ovmsim-replay 1\n";
    o << "prop " << p.prop << " world " << p.world << " kernel " << p.kernel << " seed " << p.seed << "\n";
    o << "cfg";
    for (auto &kv : p.cfg) o << " " << kv.first << "=" << kv.second;
    o << "\n";
    if (!p.expect_class.empty()) o << "expect " << p.expect_class << "\n";
    for (size_t i = 0; i < p.ops.size(); ++i) {
        const Op &q = p.ops[i];
        o << "op " << q.kind << " " << q.a[0] << " " << q.a[1] << " " << q.a[2] << " " << q.a[3];
        if (!q.s.empty()) o << " " << q.s;
        o << "\n";
    }
    return o.str();
}
inline bool plan_from_text(const std::string &txt, Plan &p, std::string &err) {
    std::istringstream in(txt);
    std::string line;
    if (!std::getline(in, line) || line.rfind("ovmsim-replay", 0) != 0) { err = "bad magic"; return false; }
    while (std::getline(in, line)) {
        if (line.empty() || line[0] == '#') continue;
        std::istringstream l(line);
        std::string w;
        l >> w;
        if (w == "prop") {
            std::string k;
            l >> p.prop;
            while (l >> k) {
                if (k == "world") l >> p.world;
                else if (k == "kernel") l >> p.kernel;
                else if (k == "seed") l >> p.seed;
            }
        } else if (w == "cfg") {
            std::string kv;
            while (l >> kv) {
                auto e = kv.find('=');
                if (e == std::string::npos) continue;
                p.cfg[kv.substr(0, e)] = atol(kv.c_str() + e + 1);
            }
        } else if (w == "expect") {
            l >> p.expect_class;
        } else if (w == "op") {
            Op q;
            l >> q.kind >> q.a[0] >> q.a[1] >> q.a[2] >> q.a[3];
            l >> q.s;
            p.ops.push_back(q);
        } else { err = "unknown line: " + line; return false; }
    }
    return true;
}
inline std::string op_text(const Op &q) {
    std::ostringstream o;
    o << q.kind << "(" << q.a[0] << "," << q.a[1] << "," << q.a[2] << "," << q.a[3] << ")";
    return o.str();
}

// ---------------------------------------------------------------- result of one run
struct RunStats {
    std::map<std::string, long> n;            // counters & probes (summed over runs)
    std::vector<uint64_t> nontrivial;         // digests of states on which the property's oracle ran non-vacuously
    void add(const std::string &k, long v = 1) { n[k] += v; }
    std::vector<uint64_t> trigrams;           // interleaving measure: digests of client-kind trigrams
    void nt(uint64_t d) { if (nontrivial.size() < 48) nontrivial.push_back(d); }
    void nt_tri(uint64_t d) { if (trigrams.size() < 96) trigrams.push_back(d); }
};
struct RunResult {
    bool violation = false;
    bool inconclusive = false;      // run aborted for a reason that is not a violation of this property
    std::string cls;                // violation class  <prop>/<oracle>[/<site>]
    std::string detail;
    int at_op = -1;
    uint64_t loghash = 0;
    RunStats st;
};

struct Violation {  // thrown by oracles
    std::string cls, detail;
};
struct Inconclusive { std::string why; };

// ---------------------------------------------------------------- json
inline std::string jesc(const std::string &s) {
    std::string o;
    for (unsigned char c : s) {
        if (c == '"' || c == '\\') { o += '\\'; o += (char)c; }
        else if (c == '\n') o += "\\n";
        else if (c < 0x20) { char b[8]; snprintf(b, sizeof b, "\\u%04x", c); o += b; }
        else o += (char)c;
    }
    return o;
}
inline std::string hex(const std::string &bytes) {
    static const char *d = "0123456789abcdef";
    std::string o;
    o.reserve(bytes.size() * 2);
    for (unsigned char c : bytes) { o += d[c >> 4]; o += d[c & 15]; }
    return o;
}
inline std::string unhex(const std::string &h) {
    std::string o;
    auto v = [](char c) { return c <= '9' ? c - '0' : (c | 32) - 'a' + 10; };
    for (size_t i = 0; i + 1 < h.size(); i += 2) o += (char)(v(h[i]) * 16 + v(h[i + 1]));
    return o;
}

// ---------------------------------------------------------------- world interface used by the driver
struct World {
    virtual ~World() {}
    virtual Plan generate(const std::string &prop, uint64_t seed, bool thorough) = 0;
    virtual RunResult execute(const Plan &p) = 0;
    // which counter keys are fault kinds (for evidence), which are rare-condition probes
    virtual std::string rule(const std::string &prop) = 0;
};
World *make_world(const std::string &prop);  // defined in main.cc from the registered factories
struct WorldReg {
    static std::map<std::string, std::function<World *()>> &tab() { static std::map<std::string, std::function<World *()>> t; return t; }
    WorldReg(const char *name, std::function<World *()> f) { tab()[name] = f; }
};
// property -> world name
struct PropInfo { const char *id; const char *world; const char *level; const char *title; };
const PropInfo *prop_info(const std::string &id);

}  // namespace sim
