// VARIANT: plain
// FROZEN world (C20): the mesh is built inside a private arena, then arena AND the executable's writable image are
// made read-only while K logical readers run const queries, interleaved at micro-step granularity by the seeded
// scheduler. Oracles: (a) any write to frozen memory during a const call (SIGSEGV with the address and the query in
// progress) - a statement about every schedule, not about the one observed; (b) every reader's observation log under
// the interleaving equals its log when run alone.
#include <csignal>
#include <dlfcn.h>
#include <sys/mman.h>
#include <unistd.h>
#include <sys/resource.h>
#include <sys/wait.h>
#include "hist_fault_ops.hh"

extern char __data_start, _end;

namespace sim {
// ---------------------------------------------------------------- arena allocator (operator new routes here while building)
static char *g_arena = nullptr;
static const size_t ARENA = (size_t)384 << 20;
static size_t g_arena_used = 0;
static bool g_arena_on = false;
struct FrozenState { volatile int frozen; char op[96]; long micro_steps; long guard_windows; };
static FrozenState *g_fs = nullptr;   // lives in its own mapping: writable while everything else is frozen

static char *image_lo() { long pg = sysconf(_SC_PAGESIZE); return (char *)((uintptr_t)&__data_start & ~(uintptr_t)(pg - 1)); }
static char *image_hi() { long pg = sysconf(_SC_PAGESIZE); return (char *)(((uintptr_t)&_end + pg - 1) & ~(uintptr_t)(pg - 1)); }
static void protect(bool ro) {
    int prot = ro ? PROT_READ : (PROT_READ | PROT_WRITE);
    mprotect(g_arena, ARENA, prot);
    mprotect(image_lo(), (size_t)(image_hi() - image_lo()), prot);
}
static void protect_image_only(bool ro) { mprotect(image_lo(), (size_t)(image_hi() - image_lo()), ro ? PROT_READ : (PROT_READ | PROT_WRITE)); }

static void on_segv(int, siginfo_t *si, void *) {
    char *a = (char *)si->si_addr;
    bool in_arena = g_arena && a >= g_arena && a < g_arena + ARENA;
    bool in_image = a >= image_lo() && a < image_hi();
    if (g_fs && g_fs->frozen && (in_arena || in_image)) {
        char buf[256];
        int n = snprintf(buf, sizeof buf, "OVMSIM-FROZEN-WRITE region=%s op=%s offset=%ld\n", in_arena ? "arena" : "image", g_fs->op, in_arena ? (long)(a - g_arena) : (long)(a - image_lo()));
        (void)!write(2, buf, (size_t)n);
        _exit(79);
    }
    signal(SIGSEGV, SIG_DFL);
}
}  // namespace sim

// thread-safe static initialisation is not a race: lift the image protection for the bracket
extern "C" int __cxa_guard_acquire(uint64_t *g) {
    using F = int (*)(uint64_t *);
    F real = (F)dlsym(RTLD_NEXT, "__cxa_guard_acquire");
    bool fr = sim::g_fs && sim::g_fs->frozen;
    // memory allocated by the initialiser becomes shared state: it is taken from the arena and frozen with it afterwards
    if (fr) { sim::protect(false); sim::g_arena_on = true; sim::g_fs->guard_windows++; }
    int r = real(g);
    if (fr && r == 0) { sim::g_arena_on = false; sim::protect(true); }
    return r;
}
extern "C" void __cxa_guard_release(uint64_t *g) {
    using F = void (*)(uint64_t *);
    F real = (F)dlsym(RTLD_NEXT, "__cxa_guard_release");
    real(g);
    if (sim::g_fs && sim::g_fs->frozen) { sim::g_arena_on = false; sim::protect(true); }
}

static inline void *plain_alloc(size_t n, size_t align) {
    using namespace sim;
    if (g_arena_on && g_arena) {
        if (align < 16) align = 16;
        size_t at = (g_arena_used + align - 1) & ~(align - 1);
        if (at + n > ARENA) throw std::bad_alloc();
        g_arena_used = at + n;
        return g_arena + at;
    }
    void *p = nullptr;
    if (align > 16) { if (posix_memalign(&p, align, n ? n : 1)) p = nullptr; } else p = malloc(n ? n : 1);
    if (!p) throw std::bad_alloc();
    return p;
}
static inline void plain_free(void *p) {
    using namespace sim;
    if (g_arena && (char *)p >= g_arena && (char *)p < g_arena + ARENA) return;
    free(p);
}
void *operator new(size_t n) { return plain_alloc(n, 0); }
void *operator new[](size_t n) { return plain_alloc(n, 0); }
void *operator new(size_t n, std::align_val_t a) { return plain_alloc(n, (size_t)a); }
void *operator new[](size_t n, std::align_val_t a) { return plain_alloc(n, (size_t)a); }
void *operator new(size_t n, const std::nothrow_t &) noexcept { try { return plain_alloc(n, 0); } catch (...) { return nullptr; } }
void *operator new[](size_t n, const std::nothrow_t &) noexcept { try { return plain_alloc(n, 0); } catch (...) { return nullptr; } }
void operator delete(void *p) noexcept { plain_free(p); }
void operator delete[](void *p) noexcept { plain_free(p); }
void operator delete(void *p, size_t) noexcept { plain_free(p); }
void operator delete[](void *p, size_t) noexcept { plain_free(p); }
void operator delete(void *p, std::align_val_t) noexcept { plain_free(p); }
void operator delete[](void *p, std::align_val_t) noexcept { plain_free(p); }
void operator delete(void *p, size_t, std::align_val_t) noexcept { plain_free(p); }
void operator delete[](void *p, size_t, std::align_val_t) noexcept { plain_free(p); }

namespace sim {

using Log = std::vector<long>;
struct Step { const char *name; std::function<void(Log &)> fn; };
struct Reader { std::vector<Step> steps; size_t pc = 0; Log log; };

template <class Mesh> struct ReaderFactory {
    const Mesh &m;
    const Rep<Mesh> &r;
    const std::vector<PropHolderBase *> &props;
    template <class Make> void walk(Reader &rd, const char *name, Make make, int maxsteps) {
        using It = decltype(make());
        auto st = std::make_shared<std::unique_ptr<It>>();
        rd.steps.push_back({name, [st, make](Log &L) { st->reset(new It(make())); L.push_back((*st)->valid() ? 1 : 0); }});
        for (int i = 0; i < maxsteps; ++i)
            rd.steps.push_back({name, [st](Log &L) { It &it = **st; if (it.valid()) { L.push_back(it->idx()); ++it; } else L.push_back(-2); }});
        rd.steps.push_back({name, [st](Log &) { st->reset(); }});
    }
    void add_program(Reader &rd, Rng &rng) {
        const Model &md = r.m;
        const Mesh *mp = &m;
        std::vector<int> lv = md.live_slots(BV), le = md.live_slots(BE), lf = md.live_slots(BF), lc = md.live_slots(BC);
        int kind = (int)rng.below(30);
        int laps = 1 + (int)rng.below(2);
        int n = 4 + (int)rng.below(12);
        auto pickv = [&]() { return VertexHandle(lv[rng.below(lv.size())]); };
        auto picke = [&]() { return EdgeHandle(le[rng.below(le.size())]); };
        auto pickhe = [&]() { return HalfEdgeHandle(2 * le[rng.below(le.size())] + (int)rng.below(2)); };
        auto pickf = [&]() { return FaceHandle(lf[rng.below(lf.size())]); };
        auto pickhf = [&]() { return HalfFaceHandle(2 * lf[rng.below(lf.size())] + (int)rng.below(2)); };
        auto pickc = [&]() { return CellHandle(lc[rng.below(lc.size())]); };
        switch (kind) {
        case 0: walk(rd, "v_iter", [mp] { return mp->v_iter(); }, n); break;
        case 1: walk(rd, "e_iter", [mp] { return mp->e_iter(); }, n); break;
        case 2: walk(rd, "he_iter", [mp] { return mp->he_iter(); }, n); break;
        case 3: walk(rd, "f_iter", [mp] { return mp->f_iter(); }, n); break;
        case 4: walk(rd, "hf_iter", [mp] { return mp->hf_iter(); }, n); break;
        case 5: walk(rd, "c_iter", [mp] { return mp->c_iter(); }, n); break;
        case 6: if (!lv.empty()) { auto h = pickv(); walk(rd, "voh_iter", [mp, h, laps] { return mp->voh_iter(h, laps); }, n); walk(rd, "vv_iter", [mp, h, laps] { return mp->vv_iter(h, laps); }, n); } break;
        case 7: if (!lv.empty()) { auto h = pickv(); walk(rd, "vf_iter", [mp, h, laps] { return mp->vf_iter(h, laps); }, n); walk(rd, "vc_iter", [mp, h, laps] { return mp->vc_iter(h, laps); }, n); } break;
        case 8: if (!lv.empty()) { auto h = pickv(); walk(rd, "vhf_iter", [mp, h, laps] { return mp->vhf_iter(h, laps); }, n); walk(rd, "ve_iter", [mp, h, laps] { return mp->ve_iter(h, laps); }, n); walk(rd, "vih_iter", [mp, h, laps] { return mp->vih_iter(h, laps); }, n); } break;
        case 9: if (!le.empty()) { auto h = pickhe(); walk(rd, "hehf_iter", [mp, h, laps] { return mp->hehf_iter(h, laps); }, n); walk(rd, "hec_iter", [mp, h, laps] { return mp->hec_iter(h, laps); }, n); walk(rd, "hef_iter", [mp, h, laps] { return mp->hef_iter(h, laps); }, n); } break;
        case 10: if (!le.empty()) { auto h = picke(); walk(rd, "ehf_iter", [mp, h, laps] { return mp->ehf_iter(h, laps); }, n); walk(rd, "ef_iter", [mp, h, laps] { return mp->ef_iter(h, laps); }, n); walk(rd, "ec_iter", [mp, h, laps] { return mp->ec_iter(h, laps); }, n); } break;
        case 11: if (!lf.empty()) { auto h = pickhf(); walk(rd, "hfv_iter", [mp, h, laps] { return mp->hfv_iter(h, laps); }, n); walk(rd, "hfhe_iter", [mp, h, laps] { return mp->hfhe_iter(h, laps); }, n); walk(rd, "hfe_iter", [mp, h, laps] { return mp->hfe_iter(h, laps); }, n); } break;
        case 12: if (!lf.empty()) { auto h = pickf(); walk(rd, "fv_iter", [mp, h, laps] { return mp->fv_iter(h, laps); }, n); walk(rd, "fhe_iter", [mp, h, laps] { return mp->fhe_iter(h, laps); }, n); walk(rd, "fe_iter", [mp, h, laps] { return mp->fe_iter(h, laps); }, n); } break;
        case 13: if (!lc.empty()) { auto h = pickc(); walk(rd, "cv_iter", [mp, h, laps] { return mp->cv_iter(h, laps); }, n); walk(rd, "chf_iter", [mp, h, laps] { return mp->chf_iter(h, laps); }, n); walk(rd, "cc_iter", [mp, h, laps] { return mp->cc_iter(h, laps); }, n); } break;
        case 14: if (!lc.empty()) { auto h = pickc(); walk(rd, "che_iter", [mp, h, laps] { return mp->che_iter(h, laps); }, n + 8); walk(rd, "ce_iter", [mp, h, laps] { return mp->ce_iter(h, laps); }, n); walk(rd, "cf_iter", [mp, h, laps] { return mp->cf_iter(h, laps); }, n); } break;
        case 15: walk(rd, "bhf_iter", [mp] { return mp->bhf_iter(); }, n); walk(rd, "bv_iter", [mp] { return mp->bv_iter(); }, n); break;
        case 16: walk(rd, "be_iter", [mp] { return mp->be_iter(); }, n); walk(rd, "bf_iter", [mp] { return mp->bf_iter(); }, n); walk(rd, "bc_iter", [mp] { return mp->bc_iter(); }, n); walk(rd, "bhe_iter", [mp] { return mp->bhe_iter(); }, n); break;
        case 17: for (int i = 0; i < n && lv.size() > 1; ++i) { auto a = pickv(), b = pickv(); rd.steps.push_back({"find_halfedge", [mp, a, b](Log &L) { L.push_back(mp->find_halfedge(a, b).idx()); }}); } break;
        case 18: for (int i = 0; i < n && !lf.empty(); ++i) {
            auto hf = pickhf();
            std::vector<VertexHandle> vs; for (int x : md.hf_vertices(md.hf_ref_of_slot(hf.idx()))) vs.push_back(VertexHandle(md.slot_of[BV][x]));
            if (vs.size() < 3) continue;
            std::rotate(vs.begin(), vs.begin() + rng.below(vs.size()), vs.end());
            rd.steps.push_back({"find_halfface", [mp, vs](Log &L) { L.push_back(mp->find_halfface(vs).idx()); }});
            rd.steps.push_back({"find_halfface_extensive", [mp, vs](Log &L) { L.push_back(mp->find_halfface_extensive(vs).idx()); }});
            rd.steps.push_back({"get_halfface_vertices", [mp, hf](Log &L) { for (auto v : mp->get_halfface_vertices(hf)) L.push_back(v.idx()); }});
        } break;
        case 19: for (int i = 0; i < n; ++i) {
            if (!lv.empty()) { auto h = pickv(); rd.steps.push_back({"is_boundary(v)", [mp, h](Log &L) { L.push_back(mp->is_boundary(h)); L.push_back((long)mp->valence(h)); }}); }
            if (!le.empty()) { auto h = picke(); auto hh = pickhe(); rd.steps.push_back({"is_boundary(e)", [mp, h, hh](Log &L) { L.push_back(mp->is_boundary(h)); L.push_back(mp->is_boundary(hh)); L.push_back((long)mp->valence(h)); }}); }
            if (!lf.empty()) { auto h = pickf(); auto hh = pickhf(); rd.steps.push_back({"is_boundary(f)", [mp, h, hh](Log &L) { L.push_back(mp->is_boundary(h)); L.push_back(mp->is_boundary(hh)); L.push_back(mp->incident_cell(hh).idx()); }}); }
            if (!lc.empty()) { auto h = pickc(); rd.steps.push_back({"is_boundary(c)", [mp, h](Log &L) { L.push_back(mp->is_boundary(h)); L.push_back((long)mp->n_vertices_in_cell(h)); }}); }
        } break;
        case 20: for (int i = 0; i < n; ++i) {
            if (!le.empty()) { auto h = picke(); rd.steps.push_back({"edge()", [mp, h](Log &L) { const auto &e = mp->edge(h); L.push_back(e.from_vertex().idx()); L.push_back(e.to_vertex().idx()); auto o = mp->opposite_halfedge(mp->halfedge_handle(h, 0)); L.push_back(o.from_vertex().idx()); }}); }
            if (!lf.empty()) { auto h = pickhf(); rd.steps.push_back({"halfface()", [mp, h](Log &L) { for (auto x : mp->halfface(h).halfedges()) L.push_back(x.idx()); for (auto x : mp->face(h.face_handle()).halfedges()) L.push_back(x.idx()); }}); }
            if (!lc.empty()) { auto h = pickc(); rd.steps.push_back({"cell()", [mp, h](Log &L) { for (auto x : mp->cell(h).halffaces()) L.push_back(x.idx()); }}); }
        } break;
        case 21: for (int i = 0; i < n && !lv.empty(); ++i) { auto h = pickv(); rd.steps.push_back({"vertex()", [mp, h](Log &L) { const Vec3d &p = mp->vertex(h); long b[3]; memcpy(b, &p[0], 24); L.push_back(b[0]); L.push_back(b[1]); L.push_back(b[2]); L.push_back((long)mp->vertex_positions().size()); }}); } break;
        case 22: for (int i = 0; i < n && !le.empty(); ++i) { auto h = pickhe(); auto e = picke(); rd.steps.push_back({"geometry", [mp, h, e](Log &L) { double l = mp->length(h); Vec3d b = mp->barycenter(e); long x; memcpy(&x, &l, 8); L.push_back(x); memcpy(&x, &b[0], 8); L.push_back(x); }}); }
                 for (int i = 0; i < 3 && !lf.empty(); ++i) { auto f = pickf(); rd.steps.push_back({"barycenter(f)", [mp, f](Log &L) { Vec3d b = mp->barycenter(f); long x; memcpy(&x, &b[1], 8); L.push_back(x); }}); }
                 for (int i = 0; i < 3 && !lc.empty(); ++i) { auto c = pickc(); rd.steps.push_back({"barycenter(c)", [mp, c](Log &L) { Vec3d b = mp->barycenter(c); long x; memcpy(&x, &b[2], 8); L.push_back(x); }}); }
                 break;
        case 23: case 24: for (int i = 0; i < n && !props.empty(); ++i) {   // reading property values through existing handles, copying values out
            const PropHolderBase *ph = props[rng.below(props.size())];
            size_t sz = ph->size();
            if (!sz) continue;
            size_t idx = rng.below(sz);
            rd.steps.push_back({"property read", [ph, idx](Log &L) { L.push_back(ph->decode(idx)); L.push_back((long)ph->size()); L.push_back(ph->persistent()); }});
        } break;
        case 25: for (int i = 0; i < n && !lc.empty(); ++i) {
            auto c = pickc();
            std::vector<int> hfs = md.C[md.slots[BC][c.idx()]];
            if (hfs.empty()) continue;
            int hfref = hfs[rng.below(hfs.size())];
            HalfFaceHandle hf(md.hf_slot_of_ref(hfref));
            std::vector<int> hes = md.hf_hes(hfref);
            HalfEdgeHandle he(md.he_slot_of_ref(hes[rng.below(hes.size())]));
            rd.steps.push_back({"adjacent_halfface_in_cell", [mp, hf, he](Log &L) { L.push_back(mp->adjacent_halfface_in_cell(hf, he).idx()); L.push_back(mp->next_halfedge_in_halfface(he, hf).idx()); L.push_back(mp->prev_halfedge_in_halfface(he, hf).idx()); }});
        } break;
        case 26: if (!lf.empty()) { auto h = pickhf(); if (m.is_boundary(h)) walk(rd, "bhfhf_iter", [mp, h, laps] { return mp->bhfhf_iter(h, laps); }, n); } break;
        default:
            if constexpr (KernelOf<Mesh>::id == 1) {
                for (int i = 0; i < n && !lc.empty(); ++i) {
                    auto c = pickc();
                    rd.steps.push_back({"get_cell_vertices", [mp, c](Log &L) { for (auto v : mp->get_cell_vertices(c)) L.push_back(v.idx()); }});
                    walk(rd, "tv_iter", [mp, c] { return mp->tv_iter(c); }, 5);
                    rd.steps.push_back({"TetTopology", [mp, c](Log &L) { TetTopology t(*mp, c); L.push_back(t.a().idx()); L.push_back(t.ab().idx()); L.push_back(t.bdc().idx()); L.push_back(mp->halfface_opposite_vertex(t.abc()).idx()); }});
                }
            } else if constexpr (KernelOf<Mesh>::id == 2) {
                for (int i = 0; i < n && !lc.empty(); ++i) {
                    auto c = pickc();
                    if (mp->cell(c).halffaces().size() != 6) continue;
                    walk(rd, "hv_iter", [mp, c] { return mp->hv_iter(c); }, 9);
                    unsigned char d = (unsigned char)rng.below(6);
                    walk(rd, "csc_iter", [mp, c, d] { return mp->csc_iter(c, d); }, 5);
                    rd.steps.push_back({"hex accessors", [mp, c](Log &L) { auto h = mp->xfront_halfface(c); L.push_back(mp->orientation(h, c)); L.push_back(mp->opposite_halfface_handle_in_cell(h, c).idx()); }});
                    HalfFaceHandle h0 = mp->cell(c).halffaces()[0];
                    if (!mp->is_boundary(h0)) walk(rd, "hfshf_iter", [mp, h0] { return mp->hfshf_iter(h0); }, 5);
                }
            } else {
                for (int i = 0; i < n; ++i) rd.steps.push_back({"counts", [mp](Log &L) { L.push_back((long)mp->n_vertices()); L.push_back((long)mp->n_logical_cells()); L.push_back(mp->genus()); L.push_back(mp->needs_garbage_collection()); }});
            }
            break;
        }
    }
    std::vector<Reader> make_readers(uint64_t seed, int k, int programs) {
        std::vector<Reader> rs((size_t)k);
        for (int i = 0; i < k; ++i) { Rng rng(seed * 1000003ull + (uint64_t)i * 7919); for (int p = 0; p < programs; ++p) add_program(rs[i], rng); }
        return rs;
    }
};

template <class Mesh> RunResult frozen_execute_T(const Plan &plan) {
    RunResult res;
    if (!g_arena) {
        g_arena = (char *)mmap(nullptr, ARENA, PROT_READ | PROT_WRITE, MAP_PRIVATE | MAP_ANONYMOUS | MAP_NORESERVE, -1, 0);
        g_fs = (FrozenState *)mmap(nullptr, 4096, PROT_READ | PROT_WRITE, MAP_PRIVATE | MAP_ANONYMOUS, -1, 0);
        struct sigaction sa; memset(&sa, 0, sizeof sa); sa.sa_sigaction = on_segv; sa.sa_flags = SA_SIGINFO;
        sigaction(SIGSEGV, &sa, nullptr);
    }
    g_arena_used = 0;
    g_arena_on = true;
    // build phase: the history world creates the mesh (with deferred-deleted entities, properties, modes) inside the arena
    HistRun<Mesh> *run = new HistRun<Mesh>(plan, res.st);
    run->keep_alive = true;
    RunResult built = run->run();
    if (!built.violation && !built.inconclusive && plan.c("final_bu_toggle", 0)) {
        // what every file reader and StatusAttrib::garbage_collection do last: incidences off, then on. Work a lazy implementation defers
        // from here would land inside the first const query of the frozen phase.
        Mesh &mm = *run->reps[run->cur]->mesh;
        long mask = plan.c("final_bu_toggle", 0);
        if (mask & 1) mm.enable_vertex_bottom_up_incidences(false);
        if (mask & 2) mm.enable_edge_bottom_up_incidences(false);
        if (mask & 4) mm.enable_face_bottom_up_incidences(false);
        if (mask & 1) mm.enable_vertex_bottom_up_incidences(true);
        if (mask & 4) mm.enable_face_bottom_up_incidences(true);
        if (mask & 2) mm.enable_edge_bottom_up_incidences(true);
        res.st.add("probe_frozen_after_incidence_toggle");
    }
    g_arena_on = false;
    if (built.violation || built.inconclusive) { res.inconclusive = true; res.detail = "build phase: " + built.cls + " " + built.detail; res.loghash = built.loghash; delete run; return res; }
    Rep<Mesh> &rep = *run->reps[run->cur];
    const Mesh &M = *rep.mesh;
    std::vector<PropHolderBase *> props;
    for (int i = 0; i < NHELD; ++i) if (run->held[i].h && run->held[i].rep == run->cur) props.push_back(run->held[i].h.get());
    ReaderFactory<Mesh> fac{M, rep, props};
    int K = 2 + (int)(plan.c("readers", 4) % 15);
    int programs = 2 + (int)(plan.c("programs", 3) % 6);
    uint64_t rseed = (uint64_t)plan.c("reader_seed", 1);
    std::vector<Reader> inter = fac.make_readers(rseed, K, programs), solo = fac.make_readers(rseed, K, programs);
    // ---- frozen phase
    Rng sched((uint64_t)plan.c("sched_seed", 1));
    size_t total = 0; for (auto &r : inter) total += r.steps.size();
    for (auto &r : inter) r.log.reserve(4096);
    for (auto &r : solo) r.log.reserve(4096);
    g_fs->frozen = 1; g_fs->micro_steps = 0; g_fs->guard_windows = 0;
    protect(true);
    uint64_t sched_hash = 0xcbf29ce484222325ULL;
    size_t done = 0;
    while (done < total) {
        size_t k = sched.below(inter.size());
        for (size_t t = 0; t < inter.size() && inter[k].pc >= inter[k].steps.size(); ++t) k = (k + 1) % inter.size();
        Reader &r = inter[k];
        Step &s = r.steps[r.pc++];
        strncpy(g_fs->op, s.name, sizeof g_fs->op - 1);
        s.fn(r.log);
        g_fs->micro_steps++;
        sched_hash = (sched_hash ^ k) * 0x100000001b3ULL;
        ++done;
    }
    // each reader alone (still frozen)
    for (auto &r : solo) for (auto &s : r.steps) { strncpy(g_fs->op, s.name, sizeof g_fs->op - 1); s.fn(r.log); }
    protect(false);
    g_fs->frozen = 0;
    res.st.add("frozen_micro_steps", g_fs->micro_steps);
    res.st.add("frozen_readers", K);
    res.st.add("probe_guarded_static_init_windows", g_fs->guard_windows);
    if (rep.m.needs_gc()) res.st.add("probe_frozen_mesh_with_tombstones");
    if (!props.empty()) res.st.add("probe_frozen_property_reads");
    uint64_t lh = built.loghash;
    for (size_t i = 0; i < inter.size(); ++i) {
        for (long v : inter[i].log) lh = fnv1a(&v, sizeof v, lh);
        if (inter[i].log != solo[i].log && !res.violation) {
            size_t at = 0; while (at < inter[i].log.size() && at < solo[i].log.size() && inter[i].log[at] == solo[i].log[at]) ++at;
            res.violation = true; res.cls = "C20/log-differs"; res.detail = "reader " + std::to_string(i) + " of " + std::to_string(K) + " observed something different under the interleaving than alone (observation #" + std::to_string(at) + ")";
        }
    }
    res.loghash = lh;
    res.st.nt(sched_hash ^ lh);
    inter.clear(); solo.clear();
    delete run;
    return res;
}

namespace {
struct FrozenWorld : World {
    World *hist = nullptr;
    Plan generate(const std::string &prop, uint64_t seed, bool thorough) override {
        if (!hist) hist = WorldReg::tab()["HIST"]();
        Plan p = hist->generate("C20", seed, thorough);
        p.prop = prop; p.world = "FROZEN";
        Rng r(seed ^ 0xf0f0);
        p.cfg["readers"] = (long)r.below(15); p.cfg["programs"] = (long)r.below(6);
        p.cfg["reader_seed"] = (long)r.below(1u << 30); p.cfg["sched_seed"] = (long)r.below(1u << 30);
        p.cfg["battery_every"] = 1000000;
        p.cfg["final_bu_toggle"] = r.chance(0.45) ? 1 + (long)r.below(7) : 0;   // mask of incidence kinds switched off and on again just before freezing
        return p;
    }
    static RunResult dispatch(const Plan &p) {
        if (p.kernel == "tet") return frozen_execute_T<TetMesh>(p);
        if (p.kernel == "hex") return frozen_execute_T<HexMesh>(p);
        return frozen_execute_T<PolyMesh>(p);
    }
    // One process per run: function-local statics initialised during the build phase would otherwise live in the arena of
    // an earlier run, and a trapped write ends the process anyway. (fork+wait is ~1 ms, the same order as a run.)
    RunResult execute(const Plan &p) override {
        int fd[2], fe[2];
        if (pipe(fd) || pipe(fe)) { RunResult r; r.inconclusive = true; r.detail = "pipe failed"; return r; }
        fflush(stdout); fflush(stderr);
        pid_t pid = fork();
        if (pid == 0) {
            close(fd[0]); close(fe[0]); dup2(fe[1], 2);
            { struct rlimit rl; rl.rlim_cur = rl.rlim_max = 120; setrlimit(RLIMIT_CPU, &rl); }   // a spinning const query dies by SIGXCPU (CPU time: robust against machine load)
            RunResult r = dispatch(p);
            std::ostringstream o;
            o << (r.violation ? "V" : r.inconclusive ? "I" : "O") << "\n" << std::hex << r.loghash << std::dec << "\n" << r.at_op << "\n" << r.cls << "\n" << r.detail << "\n";
            for (auto &kv : r.st.n) o << "n " << kv.first << " " << kv.second << "\n";
            for (auto d : r.st.nontrivial) o << "d " << std::hex << d << std::dec << "\n";
            for (auto d : r.st.trigrams) o << "t " << std::hex << d << std::dec << "\n";
            std::string s = o.str();
            size_t off = 0; while (off < s.size()) { ssize_t w = write(fd[1], s.data() + off, s.size() - off); if (w <= 0) break; off += (size_t)w; }
            _exit(0);
        }
        close(fd[1]); close(fe[1]);
        auto slurp = [](int f) { std::string s; char b[4096]; ssize_t n; while ((n = read(f, b, sizeof b)) > 0) s.append(b, (size_t)n); close(f); return s; };
        std::string out = slurp(fd[0]), err = slurp(fe[0]);
        int status = 0; waitpid(pid, &status, 0);
        RunResult r;
        if (WIFEXITED(status) && WEXITSTATUS(status) == 0 && !out.empty()) {
            std::istringstream in(out); std::string l;
            std::getline(in, l); r.violation = l == "V"; r.inconclusive = l == "I";
            std::getline(in, l); r.loghash = strtoull(l.c_str(), nullptr, 16);
            std::getline(in, l); r.at_op = atoi(l.c_str());
            std::getline(in, r.cls); std::getline(in, r.detail);
            while (std::getline(in, l)) {
                if (l.rfind("n ", 0) == 0) { size_t sp = l.rfind(' '); r.st.n[l.substr(2, sp - 2)] = atol(l.c_str() + sp + 1); }
                else if (l.rfind("d ", 0) == 0) r.st.nontrivial.push_back(strtoull(l.c_str() + 2, nullptr, 16));
                else if (l.rfind("t ", 0) == 0) r.st.trigrams.push_back(strtoull(l.c_str() + 2, nullptr, 16));
            }
            return r;
        }
        r.violation = true;
        size_t w = err.find("OVMSIM-FROZEN-WRITE ");
        if (w != std::string::npos) {
            size_t o = err.find("op=", w), sp = err.find(" offset=", w);
            std::string op = o != std::string::npos && sp != std::string::npos ? err.substr(o + 3, sp - o - 3) : "?";
            for (char &ch : op) if (ch == ' ') ch = '_';
            r.cls = std::string("C20/write-") + (err.find("region=arena", w) != std::string::npos ? "arena" : "image") + "@" + op;
            r.detail = err.substr(w, err.find('\n', w) - w) + ": a const query wrote to memory shared between readers";
        } else {
            r.cls = "C20/crash" + (WIFSIGNALED(status) ? ":signal" + std::to_string(WTERMSIG(status)) : ":exit" + std::to_string(WEXITSTATUS(status)));
            r.detail = err.substr(0, 300);
        }
        r.loghash = fnv1a(r.cls);
        return r;
    }
    std::string rule(const std::string &) override {
        return "cases = (mesh built by a seeded history inside a private arena, K in 2..16 reader programs of const queries decomposed into micro-steps, "
               "seeded interleaving); arena and the executable's .data/.bss are mprotect-ed read-only during the reader phase; distinct non-trivial = "
               "distinct (schedule, observation-log) digests";
    }
};
WorldReg reg_frozen("FROZEN", [] { return (World *)new FrozenWorld(); });
}  // namespace
}  // namespace sim
