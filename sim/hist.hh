// HIST world: cooperating clients drive one or more meshes against the reference model.
// Everything OpenVolumeMesh runs is real code; the model and the batteries are oracles.
#pragma once
#include <array>
#include <climits>
#include <cstring>
#include <limits>
#include <functional>
#include <memory>
#include <sstream>
#include <OpenVolumeMesh/Core/GeometryKernel.hh>
#include <OpenVolumeMesh/Core/TopologyKernel.hh>
#include <OpenVolumeMesh/Mesh/TetrahedralMeshTopologyKernel.hh>
#include <OpenVolumeMesh/Mesh/HexahedralMeshTopologyKernel.hh>
#include <OpenVolumeMesh/Mesh/TetrahedralMeshIterators.hh>
#include <OpenVolumeMesh/Mesh/HexahedralMeshIterators.hh>
#include <OpenVolumeMesh/Attribs/StatusAttrib.hh>
#include "kit.hh"
#include "model.hh"
#include "props.hh"

namespace sim {
using namespace OpenVolumeMesh;

using PolyMesh = GeometryKernel<Vec3d, TopologyKernel>;
using TetMesh = GeometryKernel<Vec3d, TetrahedralMeshTopologyKernel>;
using HexMesh = GeometryKernel<Vec3d, HexahedralMeshTopologyKernel>;
template <class M> struct KernelOf { static constexpr int id = 0; static const char *name() { return "poly"; } };
template <> struct KernelOf<TetMesh> { static constexpr int id = 1; static const char *name() { return "tet"; } };
template <> struct KernelOf<HexMesh> { static constexpr int id = 2; static const char *name() { return "hex"; } };

// ------------------------------------------------------------------ context: who owns a failing oracle
struct Ctx {
    std::string P;       // property under check
    RunStats *st = nullptr;
    bool is(const char *p) const { return P == p; }
    bool in(std::initializer_list<const char *> l) const { for (auto p : l) if (P == p) return true; return false; }
    // An oracle instance may fall under several properties; the running check reports it iff it is one of them.
    [[noreturn]] void fail(const std::vector<std::string> &owners, const std::string &oracle, const std::string &detail) const {
        for (auto &o : owners) if (o == P) throw Violation{P + "/" + oracle, detail};
        throw Inconclusive{"foreign:" + (owners.empty() ? std::string("?") : owners[0]) + "/" + oracle + " " + detail};
    }
};

// ------------------------------------------------------------------ plain snapshot of the SUT's own arrays
struct Snap {
    int n[4] = {0, 0, 0, 0};
    std::vector<std::pair<int, int>> E;
    std::vector<std::vector<int>> F, C;
    std::vector<char> del[4];
    long nlog[4] = {0, 0, 0, 0};
    bool deferred = false, fast = false, bu[3] = {false, false, false}, needs_gc = false;
    int genus = 0;
    long nhe = 0, nhf = 0, nlog_he = 0, nlog_hf = 0;
    int half_del_mismatch = -1;   // first half-entity whose is_deleted differs from its parent's (-1: none)
};
template <class M> Snap take_snap(const M &m) {
    Snap s;
    s.n[BV] = (int)m.n_vertices(); s.n[BE] = (int)m.n_edges(); s.n[BF] = (int)m.n_faces(); s.n[BC] = (int)m.n_cells();
    s.nlog[BV] = (long)m.n_logical_vertices(); s.nlog[BE] = (long)m.n_logical_edges();
    s.nlog[BF] = (long)m.n_logical_faces(); s.nlog[BC] = (long)m.n_logical_cells();
    for (int i = 0; i < s.n[BV]; ++i) s.del[BV].push_back(m.is_deleted(VertexHandle(i)));
    for (int i = 0; i < s.n[BE]; ++i) {
        const auto &e = m.edge(EdgeHandle(i));
        s.E.push_back({e.from_vertex().idx(), e.to_vertex().idx()});
        s.del[BE].push_back(m.is_deleted(EdgeHandle(i)));
    }
    for (int i = 0; i < s.n[BF]; ++i) {
        std::vector<int> h;
        for (auto x : m.face(FaceHandle(i)).halfedges()) h.push_back(x.idx());
        s.F.push_back(h);
        s.del[BF].push_back(m.is_deleted(FaceHandle(i)));
    }
    for (int i = 0; i < s.n[BC]; ++i) {
        std::vector<int> h;
        for (auto x : m.cell(CellHandle(i)).halffaces()) h.push_back(x.idx());
        s.C.push_back(h);
        s.del[BC].push_back(m.is_deleted(CellHandle(i)));
    }
    s.nhe = (long)m.n_halfedges(); s.nhf = (long)m.n_halffaces(); s.nlog_he = (long)m.n_logical_halfedges(); s.nlog_hf = (long)m.n_logical_halffaces();
    for (int i = 0; i < s.n[BE] && s.half_del_mismatch < 0; ++i) for (int side = 0; side < 2; ++side)
        if (m.is_deleted(HalfEdgeHandle(2 * i + side)) != (bool)s.del[BE][i]) s.half_del_mismatch = 2 * i + side;
    for (int i = 0; i < s.n[BF] && s.half_del_mismatch < 0; ++i) for (int side = 0; side < 2; ++side)
        if (m.is_deleted(HalfFaceHandle(2 * i + side)) != (bool)s.del[BF][i]) s.half_del_mismatch = 1000000 + 2 * i + side;
    s.deferred = m.deferred_deletion_enabled(); s.fast = m.fast_deletion_enabled();
    s.bu[0] = m.has_vertex_bottom_up_incidences(); s.bu[1] = m.has_edge_bottom_up_incidences(); s.bu[2] = m.has_face_bottom_up_incidences();
    s.needs_gc = m.needs_garbage_collection();
    s.genus = m.genus();
    return s;
}
inline uint64_t snap_digest(const Snap &s) {
    uint64_t h = 0xcbf29ce484222325ULL;
    auto mix = [&](long v) { h = fnv1a(&v, sizeof v, h); };
    for (int k = 0; k < 4; ++k) { mix(s.n[k]); mix(s.nlog[k]); for (char c : s.del[k]) mix(c); }
    for (int i = 0; i < (int)s.E.size(); ++i) if (!s.del[BE][i]) { mix(s.E[i].first); mix(s.E[i].second); }
    for (int i = 0; i < (int)s.F.size(); ++i) if (!s.del[BF][i]) { mix(-1); for (int x : s.F[i]) mix(x); }
    for (int i = 0; i < (int)s.C.size(); ++i) if (!s.del[BC][i]) { mix(-2); for (int x : s.C[i]) mix(x); }
    mix(s.deferred); mix(s.fast); mix(s.bu[0]); mix(s.bu[1]); mix(s.bu[2]);
    return h;
}

// ------------------------------------------------------------------ model of one property storage
struct MProp {
    int id = -1, kind = 0, type = 0;
    std::string name;
    bool shared = false, persistent = false;
    int defn = 0;
    bool attached = true;
    bool unspecified = false;  // values no longer specified (handle survived an assignment into its mesh)
    std::map<int, int> val;   // key (uid, or 2*uid+side, or 0 for the mesh) -> n ; absent = default
    int get(int key) const { auto it = val.find(key); return it == val.end() ? defn : it->second; }
};

// polyhedron templates: consistently oriented vertex cycles (every edge once in each direction)
struct PolyTemplate { int nv; std::vector<std::vector<int>> faces; };
inline const PolyTemplate &poly_template(int t) {
    static const PolyTemplate T[4] = {
        {4, {{0, 1, 2}, {1, 0, 3}, {2, 1, 3}, {0, 2, 3}}},                                            // tet
        {8, {{0, 1, 2, 3}, {7, 6, 5, 4}, {1, 0, 4, 5}, {2, 1, 5, 6}, {3, 2, 6, 7}, {0, 3, 7, 4}}},    // hex
        {6, {{0, 1, 2}, {5, 4, 3}, {1, 0, 3, 4}, {2, 1, 4, 5}, {0, 2, 5, 3}}},                        // prism
        {5, {{0, 1, 2, 3}, {1, 0, 4}, {2, 1, 4}, {3, 2, 4}, {0, 3, 4}}},                              // pyramid
    };
    return T[t & 3];
}

inline Vec3d special_pos(int code) {
    double nanv; { uint64_t u = 0x7ff8000000000123ULL; memcpy(&nanv, &u, 8); }
    switch (code) {
    case -1: return Vec3d(-0.0, 0.0, -0.0);
    case -2: return Vec3d(std::numeric_limits<double>::infinity(), -std::numeric_limits<double>::infinity(), 1.0);
    case -3: return Vec3d(std::numeric_limits<double>::denorm_min(), std::numeric_limits<double>::min(), std::numeric_limits<double>::max());
    case -4: return Vec3d(nanv, 0.1, 1e-300);
    default: return Vec3d(1.0 / 3.0, 2.0 / 3.0, 1e17 + 1);
    }
}
inline Vec3d pos_of_code(int n) { return n == INT_MIN ? Vec3d(0, 0, 0) : n < 0 ? special_pos(n) : Render<Vec3d>::make(n); }

struct IoRec { int kind; std::string type; std::string name; std::string def; std::vector<std::string> elems; bool ascii_ok; };

// ------------------------------------------------------------------ one replica = mesh + model + tags + props
template <class Mesh> struct Rep {
    std::unique_ptr<Mesh> mesh;
    Model m;
    std::vector<int> vpos;                       // by vertex uid: n or INT_MIN (default position)
    VertexPropertyT<int> tv; EdgePropertyT<int> te; FacePropertyT<int> tf; CellPropertyT<int> tc;
    HalfEdgePropertyT<int> the; HalfFacePropertyT<int> thf;
    std::vector<MProp> props;                    // model ids index this
    bool ever_reenabled = false;
    bool pos_persistent = false;                 // set_persistent(vertex_positions())
    std::map<std::array<int, 3>, int> lat_v, lat_c;
    std::vector<IoRec> io;                        // extra persistent properties of all codec types (checkpointer)   // hex lattice: coordinate -> vertex uid / cell uid
    Rep() : mesh(new Mesh()), tv(mesh->template create_private_property<int, Entity::Vertex>("", -7)),
            te(mesh->template create_private_property<int, Entity::Edge>("", -7)),
            tf(mesh->template create_private_property<int, Entity::Face>("", -7)),
            tc(mesh->template create_private_property<int, Entity::Cell>("", -7)),
            the(mesh->template create_private_property<int, Entity::HalfEdge>("", -7)),
            thf(mesh->template create_private_property<int, Entity::HalfFace>("", -7)) {}
    // new mesh object for an existing model (fork / restart): tags are (re)written from the model
    explicit Rep(Mesh *take) : mesh(take), tv(mesh->template create_private_property<int, Entity::Vertex>("", -7)),
            te(mesh->template create_private_property<int, Entity::Edge>("", -7)),
            tf(mesh->template create_private_property<int, Entity::Face>("", -7)),
            tc(mesh->template create_private_property<int, Entity::Cell>("", -7)),
            the(mesh->template create_private_property<int, Entity::HalfEdge>("", -7)),
            thf(mesh->template create_private_property<int, Entity::HalfFace>("", -7)) {}
    void write_tags() {
        for (int s = 0; s < m.n(BV); ++s) tv[VertexHandle(s)] = m.slots[BV][s];
        for (int s = 0; s < m.n(BE); ++s) { te[EdgeHandle(s)] = m.slots[BE][s]; the[HalfEdgeHandle(2 * s)] = 2 * m.slots[BE][s]; the[HalfEdgeHandle(2 * s + 1)] = 2 * m.slots[BE][s] + 1; }
        for (int s = 0; s < m.n(BF); ++s) { tf[FaceHandle(s)] = m.slots[BF][s]; thf[HalfFaceHandle(2 * s)] = 2 * m.slots[BF][s]; thf[HalfFaceHandle(2 * s + 1)] = 2 * m.slots[BF][s] + 1; }
        for (int s = 0; s < m.n(BC); ++s) tc[CellHandle(s)] = m.slots[BC][s];
    }
    // key of a property slot in uid space; -1 for a tombstone slot (value unspecified)
    int key_of_slot(int pk, int s) const {
        if (pk == KM) return 0;
        int b = base_of(pk);
        int bs = is_half(pk) ? s / 2 : s;
        int u = m.slots[b][bs];
        if (!m.alive[b][u]) return -1;
        return is_half(pk) ? 2 * u + (s & 1) : u;
    }
    int nslots(int pk) const { return pk == KM ? 1 : (is_half(pk) ? 2 : 1) * m.n(base_of(pk)); }
    VertexHandle vh(int uid) const { return VertexHandle(m.slot_of[BV][uid]); }
    EdgeHandle eh(int uid) const { return EdgeHandle(m.slot_of[BE][uid]); }
    FaceHandle fh(int uid) const { return FaceHandle(m.slot_of[BF][uid]); }
    CellHandle ch(int uid) const { return CellHandle(m.slot_of[BC][uid]); }
    HalfEdgeHandle heh(int ref) const { return HalfEdgeHandle(m.he_slot_of_ref(ref)); }
    HalfFaceHandle hfh(int ref) const { return HalfFaceHandle(m.hf_slot_of_ref(ref)); }
    bool hf_used(int ref) const {
        for (int c = 0; c < m.n_uids(BC); ++c) if (m.alive[BC][c]) for (int h : m.C[c]) if (h == ref) return true;
        return false;
    }
    int cell_of_hf(int ref) const {
        for (int c = 0; c < m.n_uids(BC); ++c) if (m.alive[BC][c]) for (int h : m.C[c]) if (h == ref) return c;
        return -1;
    }
    bool edge_has_face(int eu) const {
        for (int f = 0; f < m.n_uids(BF); ++f) if (m.alive[BF][f]) for (int h : m.F[f]) if (h / 2 == eu) return true;
        return false;
    }
    bool face_has_cell(int fu) const { return hf_used(2 * fu) || hf_used(2 * fu + 1); }
};

inline std::string vec_str(const std::vector<int> &v) {
    std::string s = "[";
    for (size_t i = 0; i < v.size(); ++i) { if (i) s += ","; s += std::to_string(v[i]); }
    return s + "]";
}
inline bool cyc_equal(const std::vector<int> &a, const std::vector<int> &b) {
    if (a.size() != b.size()) return false;
    size_t n = a.size();
    if (!n) return true;
    for (size_t r = 0; r < n; ++r) {
        bool ok = true;
        for (size_t i = 0; i < n && ok; ++i) ok = a[i] == b[(i + r) % n];
        if (ok) return true;
    }
    return false;
}

}  // namespace sim
